"""Executor for FTStore behaviours: runs abstract mutation histories on the real API and logs, after every
call, the outcome class and the projected state.  Contains no expected values."""
import json
from fractions import Fraction
import sys

sys.path.insert(0, __import__("os").environ.get("VERIF_REPO", "/repo"))

from fibertree import Fiber, Payload, Tensor, CoordPayload  # noqa: E402
from fibertree.core.fiber import CoordinateError  # noqa: E402

from . import proj  # noqa: E402

RANK_IDS = ["K", "M", "N", "P"]

COORD_FN = {
    "shift": lambda i, c, p: c + 2,
    "reverse": lambda i, c, p: 10 - c,
    "double": lambda i, c, p: 2 * c,
    "mirror": lambda i, c, p: -c,
    "recentre": lambda i, c, p: c - 1,
}
VAL_FN = {"inc": lambda v: v + 1, "zero": lambda v: 0, "dbl": lambda v: 2 * v}


def classify_exc(ex):
    if isinstance(ex, CoordinateError):
        return "order"
    if isinstance(ex, AssertionError) and "monotonically increasing" in str(ex):
        return "order"
    return "err:" + type(ex).__name__


def fiber_at(root, path):
    f = root
    for c in path:
        idx = f.coords.index(c)
        f = f.payloads[idx]
    return f


def tree_points(tree, prefix=()):
    """all stored leaf points (explicit defaults included) and the paths of stored empty fibers"""
    pts, empties = [], []
    for c, p in tree["e"]:
        if p["k"] == "F":
            if not p["e"]:
                empties.append(prefix + (c,))
            a, b = tree_points(p, prefix + (c,))
            pts += a
            empties += b
        else:
            pts.append((prefix + (c,), p["v"]))
    return pts, empties


def is_canonical(tree):
    for c, p in tree["e"]:
        if p["k"] == "F":
            if not p["e"] or not is_canonical(p):
                return False
        elif p["v"] == 0:
            return False
    return True


def to_nest(tree, depth, n):
    if depth == 1:
        out = [0] * n
        for c, p in tree["e"]:
            out[c] = p["v"]
        return out
    out = [to_nest({"k": "F", "e": []}, depth - 1, n) for _ in range(n)]
    for c, p in tree["e"]:
        out[c] = to_nest(p, depth - 1, n)
    return out


def build_tensor_ctor(init, depth, ctor, workdir=None):
    """every constructor produces a tensor whose tree equals `init` (or returns None if the constructor cannot
    express it, e.g. fromUncompressed for a tree holding explicit defaults)"""
    import copy
    ids = RANK_IDS[:depth]
    if ctor == "fromFiber":
        return proj.build_tensor(init, ids)
    if ctor == "deepcopy":
        return copy.deepcopy(proj.build_tensor(init, ids))
    if ctor == "empty":
        t = Tensor(rank_ids=ids)
        pts, empties = tree_points(init)
        for pt, v in pts:
            r = t.getPayloadRef(*pt)
            r <<= v
        for pt in empties:
            t.getPayloadRef(*pt)
        return t
    if ctor == "fromUncompressed":
        if not is_canonical(init) or not init["e"]:
            return None
        return Tensor.fromUncompressed(ids, to_nest(init, depth, 4))
    if ctor == "yaml":
        import os, tempfile
        t0 = proj.build_tensor(init, ids)
        workdir = workdir or os.path.join(os.path.dirname(os.path.dirname(os.path.abspath(__file__))), ".work", "yaml")
        os.makedirs(workdir, exist_ok=True)
        fd, path = tempfile.mkstemp(suffix=".yaml", dir=workdir)
        os.close(fd)
        try:
            t0.dump(path)
            t = Tensor.fromYAMLfile(path)
        finally:
            os.unlink(path)
        return t
    if ctor == "swizzle":
        if depth < 2 or not is_canonical(init):
            return None
        t0 = proj.build_tensor(init, ids)
        return t0.swizzleRanks(list(reversed(ids))).swizzleRanks(ids)
    if ctor == "setRoot":
        t = Tensor(rank_ids=ids)
        t.setRoot(proj.build_fiber(init))
        return t
    raise ValueError(ctor)


def build(beh):
    depth = beh["depth"]
    if beh["emb"] == "tensor":
        t = build_tensor_ctor(beh["init"], depth, beh.get("ctor", "fromFiber"))
        return t, t.getRoot()
    f = proj.build_fiber(beh["init"])
    if beh.get("ctor") == "maxcoord" and f.coords:
        # the (deprecated, still accepted) constructor argument naming the largest coordinate
        import warnings
        with warnings.catch_warnings():
            warnings.simplefilter("ignore")
            f = Fiber(list(f.coords), list(f.payloads), max_coord=f.coords[-1])
    return f, f


def observe(obj, root, kind, beh):
    """read-only operations; their results are discarded here (C10/C12/C07 judge them), only side effects matter"""
    import copy, io, contextlib
    other = build(beh)[0]
    oroot = other.getRoot() if beh["emb"] == "tensor" else other
    if kind == "eq":
        _ = (obj == other)
        _ = (obj != other)
    elif kind in ("or", "xor", "and", "sub"):
        def walk(a, b, d):
            it = {"or": lambda: a | b, "xor": lambda: a ^ b, "and": lambda: a & b, "sub": lambda: a - b}[kind]()
            for c, ps in it:
                ps = tuple(ps) if isinstance(ps, tuple) else (ps,)
                fs = [p for p in ps if isinstance(p, Fiber)]
                if len(fs) >= 2 and d < 3:
                    walk(fs[-2], fs[-1], d + 1)
        walk(root, oroot, 0)
        # also against a differently-shaped operand so that both sides are absent somewhere
        walk(root, type(root)([7], [oroot.payloads[0]]) if (oroot.payloads and isinstance(oroot.payloads[0], Fiber)) else Fiber([7], [1]), 0)
    elif kind == "print":
        _ = str(obj), repr(obj), f"{obj}"
        with contextlib.redirect_stdout(io.StringIO()):
            obj.print()
    elif kind == "count":
        _ = obj.countValues()
        _ = root.isEmpty(), root.nonEmpty(), len(root)
    elif kind == "getabsent":
        d = beh["depth"]
        for pt in ([9] * d, [0] + [9] * (d - 1), [9], [0]):
            try:
                obj.getPayload(*pt[:d])
            except AssertionError:
                pass
    elif kind == "iter":
        for _ in root:
            pass
        for _ in root.iterOccupancy():
            pass
        for _ in root.iterRangeShape(0, 3):
            pass
        for _ in Fiber.coiterRangeShape([root, oroot], 0, 3):
            pass
    elif kind == "shape":
        _ = obj.getShape(), obj.getDepth(), obj.getRankIds()
        if beh["emb"] == "tensor":
            _ = obj.getShape(authoritative=True)
    elif kind == "dump":
        _ = root.fiber2dict()
    elif kind == "uncompress":
        try:
            root.uncompress()
        except IndexError:
            pass
    elif kind == "reroot":
        # build another tensor from this tensor's (owned) root: the source must stay intact
        if beh["emb"] == "tensor":
            _ = Tensor.fromFiber(rank_ids=obj.getRankIds(), fiber=root)
            t2 = Tensor(rank_ids=obj.getRankIds())
            t2.setRoot(root)
    elif kind == "transforms":
        # value-returning transforms of a tensor (every rotation / adjacent swap of its ranks, a split, a flatten): the SOURCE must keep its own fibers, owners and rank lists
        if beh["emb"] == "tensor" and beh["depth"] >= 2:
            ids = list(obj.getRankIds())
            for k in range(len(ids) - 1):
                _ = obj.swizzleRanks(ids[:k] + [ids[k + 1], ids[k]] + ids[k + 2:])
            _ = obj.swizzleRanks(ids[1:] + ids[:1])
            _ = obj.swapRanks()
            _ = obj.splitUniform(2)
            _ = obj.flattenRanks()
    elif kind == "copy":
        _ = copy.deepcopy(obj)
        _ = root.copy()


def project(obj, emb, oids=None):
    if emb == "tensor":
        return proj.proj_tensor(obj, oids)
    return {"rank0": 0, "root": proj.proj_fiber(obj, None, oids), "ranks": []}


def do_action(obj, root, a, emb, beh=None, env=None):
    """env: per-behaviour dict {refs: {step: payload}, step: n, oids}; returns extra fields to log"""
    op = a["op"]
    if op == "ref":
        sp = a.get("sp", -1)
        r = obj.getPayloadRef(*a["pt"]) if sp == -1 else obj.getPayloadRef(*a["pt"], start_pos=(Payload(sp) if (sp + a["pt"][0]) % 2 else sp))
        if env is not None:
            env["refs"][env["step"]] = r
            return {"resid": env["oids"](r) if env.get("oids") else 0}
        return None
    if op == "hwrite":
        r = env["refs"][a["h"]]
        if a["kind"] == "assign":
            r <<= a["v"]
        elif a["kind"] == "add":
            r += a["v"]
        else:
            r *= a["v"]
        return None
    if op == "get" and "path" in a:
        f = fiber_at(root, a["path"])
        tgt = obj if (not a["path"]) else f          # Tensor-level delegation when addressing the root
        kw = {}
        if a["mode"] == "dflt":
            kw = {"allocate": False, "default": 7}
        elif a["mode"] == "dflt0":
            kw = {"allocate": False, "default": 0 if (len(a["pt"]) + a["pt"][0]) % 2 else 0.0}        # a caller-supplied default that happens to be falsy
        if a["sp"] != -1:
            # a saved position may be given as a plain int or boxed (what getSavedPos-style code passes around)
            kw["start_pos"] = Payload(a["sp"]) if (a["sp"] + len(a["pt"]) + len(a["path"])) % 2 else a["sp"]
        res = tgt.getPayload(*a["pt"], **kw)
        if isinstance(res, Fiber):
            return {"res": proj.proj_fiber(res, None, env.get("oids") if env else None)}
        if isinstance(res, Payload):
            return {"res": proj.proj_payload(res, None, env.get("oids") if env else None)}
        return {"res": {"k": "X", "t": "returned-" + type(res).__name__}}
    if op == "fref":
        env.setdefault("frefs", {})[env["step"]] = fiber_at(root, a["path"])
        return None
    if op == "detached":
        # the kept handle is used like any fiber: a path below it is created and written
        r = env["frefs"][a["h"]].getPayloadRef(*a["pt"])
        r <<= a["v"]
        return None
    if op == "setroot":
        obj.setRoot(proj.build_fiber({"k": "F", "e": a["other"]}))
        return None
    if op in ("dlookup", "dinsert"):
        import warnings
        f = fiber_at(root, a["path"])
        with warnings.catch_warnings():
            warnings.simplefilter("ignore")
            if op == "dlookup":
                f.insertOrLookup(a["c"])
            else:
                f.insert(a["c"], a["v"])
        return None
    if op in ("getpos", "getposref"):
        f = fiber_at(root, a["path"])
        kw = {"start_pos": (Payload(a["sp"]) if (a["sp"] + a["c"]) % 2 else a["sp"])} if a["sp"] != -1 else {}
        res = f.getPosition(a["c"], **kw) if op == "getpos" else f.getPositionRef(a["c"], **kw)
        return {"res": -1 if res is None else int(res)}
    if op == "ref_":
        pass
    elif op == "write":
        r = obj.getPayloadRef(*a["pt"])
        if a["kind"] == "assign":
            r <<= a["v"]
        elif a["kind"] == "add":
            r += a["v"]
        else:
            r *= a["v"]
    elif op == "poswrite":
        # the position route to the same payload: p = f.getPositionRef(c); f[p] op= v  (getitem, the element's in-place operator, setitem)
        f = fiber_at(root, a["pt"][:-1])
        p = f.getPositionRef(a["pt"][-1])
        if a["kind"] == "assign":
            f[p] <<= a["v"]
        elif a["kind"] == "add":
            f[p] += a["v"]
        else:
            f[p] *= a["v"]
    elif op == "get":
        obj.getPayload(*a["pt"])
    elif op == "obs":
        observe(obj, root, a["kind"], beh)
    else:
        f = fiber_at(root, a["path"])
        if op == "append":
            f.append(a["c"], a["v"])
        elif op == "extend":
            f.extend(proj.build_fiber({"k": "F", "e": a["other"]}))
        elif op == "setitem":
            v = None if a["v"] == -1 else a["v"]
            # the root fiber of a tensor is also reached through the tensor's own item assignment (every other position)
            tgt = obj if (emb == "tensor" and not a.get("path") and a["pos"] % 2 == 1) else f
            if a["c"] == -1:
                tgt[a["pos"]] = v
            else:
                tgt[a["pos"]] = CoordPayload(a["c"], v)
        elif op == "clear":
            f.clear()
        elif op == "fassign":
            # one source object per distinct operand of the history: `x <<= src` twice with the same src is an ordinary user pattern, and the
            # assignment must copy (a later write under one target must not show under the other, nor in src)
            key = json.dumps(a["other"], sort_keys=True)
            srcs = env.setdefault("srcs", {})
            if key not in srcs:
                srcs[key] = proj.build_fiber({"k": "F", "e": a["other"]})
            f <<= srcs[key]
        elif op == "itershaperef":
            for _ in f.iterRangeShapeRef(a["lo"], a["hi"], a["step"]):
                pass
        elif op == "fimul":
            # the scalar is a plain int or (every other case) a number of another numeric type with the same value
            f *= (Fraction(a["v"]) if (a["v"] + len(a.get("path", []))) % 2 else a["v"])
        elif op == "fiadd":
            f += a["v"]
        elif op == "updcoords":
            if emb == "tensor":
                f.updateCoords(COORD_FN[a["fn"]])
            elif a["fn"] in ("reverse", "mirror") and len(a.get("path", [])) == 0 and len(f.coords) % 2 == 1:
                # a fiber without a declared shape and no new_shape=: the library rejects the call (shape type check) - the tree must stay well-formed all the same
                f.updateCoords(COORD_FN[a["fn"]])
            else:
                f.updateCoords(COORD_FN[a["fn"]], new_shape=64)
        elif op == "updpayloads":
            fn = VAL_FN[a["fn"]]
            f.updatePayloads(lambda i, c, p: Payload(fn(Payload.get(p))))
        else:
            raise ValueError("unknown op " + op)


def execute(beh):
    """beh: {tid, init, depth, emb, steps:[action...]} -> log record for StoreTrace"""
    obj, root = build(beh)
    emb = beh["emb"]
    oids = proj.Oids() if beh.get("ids") else None
    out = {"tid": beh["tid"], "init": beh["init"], "depth": beh["depth"], "emb": emb, "ctor": beh.get("ctor", "fromFiber"),
           "init0": project(obj, emb, oids), "steps": []}
    env = {"refs": {}, "step": 0, "oids": oids}
    for n, a in enumerate(beh["steps"]):
        exc = "ok"
        extra = None
        env["step"] = n + 1
        try:
            extra = do_action(obj, root, a, emb, beh, env)
        except BaseException as ex:  # noqa: B036 - parsers call sys.exit
            exc = classify_exc(ex)
        if emb == "tensor":
            root = obj.getRoot()
        ev = {"act": a, "exc": exc, "post": project(obj, emb, oids)}
        if extra:
            ev.update(extra)
        else:
            ev.update({"res": {"k": "N"}, "resid": 0} if a["op"] in ("get", "ref") else {})
        out["steps"].append(ev)
    out["rankfp"] = []
    if emb == "tensor" and beh["steps"]:
        # a per-rank quantity derived from the rank lists: the footprint of each rank when every fiber costs one bit and nothing else costs anything
        try:
            from fibertree.model.format import Format
            ids = list(obj.getRankIds())
            fm = Format(obj, {r: {"fhbits": 1} for r in ids})
            out["rankfp"] = [int(fm.getRank(r)) for r in ids]
        except BaseException:  # noqa: B036
            out["rankfp"] = []
    return out
