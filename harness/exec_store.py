"""Executor for FTStore behaviours: runs abstract mutation histories on the real API and logs, after every
call, the outcome class and the projected state.  Contains no expected values."""
import sys

sys.path.insert(0, "/repo")

from fibertree import Fiber, Payload, Tensor, CoordPayload  # noqa: E402
from fibertree.core.fiber import CoordinateError  # noqa: E402

from . import proj  # noqa: E402

RANK_IDS = ["K", "M", "N", "P"]

COORD_FN = {
    "shift": lambda i, c, p: c + 2,
    "reverse": lambda i, c, p: 10 - c,
    "double": lambda i, c, p: 2 * c,
}
VAL_FN = {"inc": lambda v: v + 1, "zero": lambda v: 0, "dbl": lambda v: 2 * v}


def classify_exc(ex):
    if isinstance(ex, CoordinateError):
        return "order"
    if isinstance(ex, AssertionError) and "monotonically increasing" in str(ex):
        return "order"
    return "err:" + type(ex).__name__


def fiber_at(root, path):
    f = root
    for c in path:
        idx = f.coords.index(c)
        f = f.payloads[idx]
    return f


def build(beh):
    depth = beh["depth"]
    if beh["emb"] == "tensor":
        t = proj.build_tensor(beh["init"], RANK_IDS[:depth])
        return t, t.getRoot()
    f = proj.build_fiber(beh["init"])
    return f, f


def project(obj, emb):
    if emb == "tensor":
        return proj.proj_tensor(obj)
    return {"rank0": 0, "root": proj.proj_fiber(obj), "ranks": []}


def do_action(obj, root, a, emb):
    op = a["op"]
    if op == "ref":
        obj.getPayloadRef(*a["pt"])
    elif op == "write":
        r = obj.getPayloadRef(*a["pt"])
        if a["kind"] == "assign":
            r <<= a["v"]
        elif a["kind"] == "add":
            r += a["v"]
        else:
            r *= a["v"]
    elif op == "get":
        obj.getPayload(*a["pt"])
    else:
        f = fiber_at(root, a["path"])
        if op == "append":
            f.append(a["c"], a["v"])
        elif op == "extend":
            f.extend(proj.build_fiber({"k": "F", "e": a["other"]}))
        elif op == "setitem":
            v = None if a["v"] == -1 else a["v"]
            if a["c"] == -1:
                f[a["pos"]] = v
            else:
                f[a["pos"]] = CoordPayload(a["c"], v)
        elif op == "clear":
            f.clear()
        elif op == "fassign":
            f <<= proj.build_fiber({"k": "F", "e": a["other"]})
        elif op == "itershaperef":
            for _ in f.iterRangeShapeRef(a["lo"], a["hi"], a["step"]):
                pass
        elif op == "fimul":
            f *= a["v"]
        elif op == "fiadd":
            f += a["v"]
        elif op == "updcoords":
            if emb == "tensor":
                f.updateCoords(COORD_FN[a["fn"]])
            else:
                f.updateCoords(COORD_FN[a["fn"]], new_shape=64)
        elif op == "updpayloads":
            fn = VAL_FN[a["fn"]]
            f.updatePayloads(lambda i, c, p: Payload(fn(Payload.get(p))))
        else:
            raise ValueError("unknown op " + op)


def execute(beh):
    """beh: {tid, init, depth, emb, steps:[action...]} -> log record for StoreTrace"""
    obj, root = build(beh)
    emb = beh["emb"]
    out = {"tid": beh["tid"], "init": beh["init"], "depth": beh["depth"], "emb": emb, "steps": []}
    for a in beh["steps"]:
        exc = "ok"
        try:
            do_action(obj, root, a, emb)
        except BaseException as ex:  # noqa: B036 - parsers call sys.exit
            exc = classify_exc(ex)
        if emb == "tensor":
            root = obj.getRoot()
        out["steps"].append({"act": a, "exc": exc, "post": project(obj, emb)})
    return out
