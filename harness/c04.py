"""C04 - co-iteration operators compute exactly their coordinate-set truth tables"""
import itertools
from . import tlc, family


def design_and_cases(ctx):
    nc, vmax = (3, 1) if ctx.quick else (3, 2)
    cfg = tlc.write_cfg("MC_Coiter_run.cfg", f"CONSTANTS\n NC = {nc}\n VMAX = {vmax}\nINIT Init\nNEXT Next\nINVARIANT DesignOK\nCHECK_DEADLOCK FALSE\n")
    r = tlc.model_check("MC_Coiter.tla", cfg, workers=1)
    return r, [p for p in r["prints"] if isinstance(p, dict) and p.get("kind") == "pair"]


def rand_tree(rng, nc, pabs=0.35, pz=0.25):
    return {"k": "F", "e": [[c, {"k": "L", "v": 0 if rng.random() < pz else rng.randint(1, 2)}] for c in range(nc) if rng.random() > pabs]}


def prefix_cases(ctx, n):
    out = []
    rng = ctx.rng
    for _ in range(n):
        la, lb = rng.choice([(1, 2), (2, 1), (1, 3), (3, 1), (2, 3), (3, 2)])
        def mk(l):
            cs = sorted(set(tuple(rng.randint(0, 2) for _ in range(l)) for _ in range(rng.randint(0, 5))))
            return {"k": "F", "e": [[list(c), {"k": "L", "v": 0 if rng.random() < 0.2 else rng.randint(1, 3)}] for c in cs]}
        out.append({"kind": "prefix", "op": "and", "emb": "fiber", "ops": [mk(la), mk(lb)]})
    return out


def run(ctx):
    r, pairs = design_and_cases(ctx)
    design = [family.design_entry("MC_Coiter", "pairs", r, "exhaustive: two-finger machine = truth table for all operators and fiber pairs", ["DesignOK"])]
    cases = []
    embs = [("fiber", ["C", "C"]), ("tensor1", ["C", "C"]), ("tensor2", ["C", "C"]), ("fiber", ["U", "C"]), ("tensor1", ["C", "U"]), ("tensor1", ["U", "U"])]
    for p in pairs:
        for emb, fmt in embs:
            if fmt != ["C", "C"] and ctx.quick and ctx.rng.random() < 0.5:
                continue
            cases.append({"kind": "pair", "op": p["op"], "ops": p["ops"], "emb": emb, "fmt": fmt})
    # n-ary (k = 3, 4): exhaustive over 2 coordinates, random beyond
    small = [{"k": "F", "e": [[c, {"k": "L", "v": v}] for c, v in zip(range(2), vs) if v >= 0]} for vs in itertools.product([-1, 0, 1], repeat=2)]
    for k in (3, 4):
        tuples = list(itertools.product(small, repeat=k))
        if len(tuples) > (400 if ctx.quick else 7000):
            tuples = ctx.rng.sample(tuples, 400 if ctx.quick else 7000)
        for ops in tuples:
            for op in ("intersection", "union", "lf"):
                cases.append({"kind": "nary", "op": op, "ops": list(ops), "emb": ctx.rng.choice(["fiber", "tensor1", "tensor2"]), "fmt": ["C"] * k})
    nrand = 300 if ctx.quick else 5000
    for _ in range(nrand):
        k = ctx.rng.choice([2, 3, 4])
        ops = [rand_tree(ctx.rng, 6) for _ in range(k)]
        if k == 2:
            cases.append({"kind": "pair", "op": ctx.rng.choice(["and", "or", "xor", "sub"]), "ops": ops, "emb": ctx.rng.choice(["fiber", "tensor1", "tensor2"]),
                          "fmt": [ctx.rng.choice(["C", "U"]), ctx.rng.choice(["C", "U"])]})
        else:
            # n-ary forms over ranks declared uncompressed (a leader-follower leader walks its whole active range, followers are looked up)
            cases.append({"kind": "nary", "op": ctx.rng.choice(["intersection", "union", "lf", "lf"]), "ops": ops, "emb": ctx.rng.choice(["fiber", "tensor1", "tensor2"]),
                          "fmt": [ctx.rng.choice(["C", "C", "U"]) for _ in range(k)]})
        if k == 2:
            cases.append({"kind": "nary", "op": "lf", "ops": ops, "emb": ctx.rng.choice(["fiber", "tensor1"]), "fmt": [ctx.rng.choice(["C", "U"]), ctx.rng.choice(["C", "U"])]})
    # n-ary forms with an operand whose rank is declared uncompressed and that stores nothing (or only explicit defaults): it still presents its whole range
    for k in (2, 3):
        for first in ({"k": "F", "e": []}, {"k": "F", "e": [[1, {"k": "L", "v": 0}], [3, {"k": "L", "v": 0}]]}):
            for op in ("intersection", "lf", "union"):
                for pos in range(k):
                    ops = [rand_tree(ctx.rng, 6, pabs=0.3, pz=0.1) for _ in range(k)]
                    ops[pos] = first
                    cases.append({"kind": "nary", "op": op, "ops": ops, "emb": ctx.rng.choice(["fiber", "tensor1"]), "fmt": ["U" if j == pos else "C" for j in range(k)]})
    # a - b with b the lazy result of another co-iteration (differences of intersections)
    for c in list(cases):
        if c["kind"] == "pair" and c["op"] == "sub" and c.get("fmt", ["C", "C"])[1] == "C" and ctx.rng.random() < 0.3:
            cases.append(dict(c, lazyb=1))
    # the same co-iterations over ranks whose leaf default is 2 (a stored 2 counts as absent, a stored 0 is content)
    for c in list(cases):
        if c["emb"] in ("fiber", "tensor1") and ctx.rng.random() < (0.2 if ctx.quick else 0.5):
            cases.append(dict(c, dflt=2))
        elif c["emb"] in ("fiber", "tensor1") and ctx.rng.random() < (0.15 if ctx.quick else 0.4):
            # operands with DIFFERENT leaf defaults: each side's absences and stand-ins follow its own default
            cases.append(dict(c, dflts=[ctx.rng.choice([0, 2, 3]) for _ in c["ops"]]))
    cases += prefix_cases(ctx, 300 if ctx.quick else 4000)
    part = family.run_family(ctx, "C04", cases, "harness.exec_coiter", "CoiterTrace.tla", "CoiterTrace.cfg",
                             op_of=lambda c, lg, st: c["op"], where_of=lambda c, lg, st: f"{c['kind']}:{c['emb']}:{''.join(c.get('fmt') or [])}" + (":dflt2" if c.get("dflt") else "") + (":dflts" if c.get("dflts") else "") + (":lazyb" if c.get("lazyb") else ""),
                             nontrivial=lambda c, lg: any(t["e"] for t in c["ops"]))
    res = {"design": design, "states": r["stats"]["distinct"], "transitions": r["stats"]["generated"], "exhaustive": False,
           "rule": "a case is one co-iteration (operator, operands, embedding, rank formats) executed on the implementation; pairs are emitted by TLC "
                   "from MC_Coiter (every operator x every pair of the scope) and embedded as raw fibers, depth-1 tensors, depth-2 tensors (fiber payloads) "
                   "and ranks declared uncompressed; k-tuples exhaustive over 2 coordinates (sampled) plus seeded random 6-coordinate cases and tuple-prefix cases; "
                   "non-trivial = some operand has an element",
           "assumptions": ["ordered, unique fibers", "integer coordinates except in the prefix-match cases", "leaf defaults 0 and 2"],
           "scope": {"pairs": len(pairs), "embeddings": [e[0] + ":" + "".join(e[1]) for e in embs]}}
    return family.merge(res, part)


def replay(ctx, rec):
    return family.replay_family(ctx, "C04", rec, "harness.exec_coiter", "CoiterTrace.tla", "CoiterTrace.cfg")
