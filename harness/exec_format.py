"""Executor for footprint cases (C18)."""
import sys

sys.path.insert(0, __import__("os").environ.get("VERIF_REPO", "/repo"))
from fibertree import Fiber, Payload, Tensor  # noqa: E402
from fibertree.model.format import Format  # noqa: E402
from . import proj  # noqa: E402

IDS = ["K", "M", "N", "P"]
FIELDS = {"fmt": "format", "rh": "rhbits", "fh": "fhbits", "c": "cbits", "p": "pbits", "layout": "layout"}


def execute(case):
    oids = proj.Oids()
    depth = case["depth"]
    out = {"tid": case["tid"], "spec": case["spec"], "rootspec": case["rootspec"], "shapes": case["shapes"], "depth": depth, "exc": "ok", "qs": [], "qs2": [], "grown": 0, "pre2": {"root": {"k": "F", "e": []}}}
    try:
        if case.get("ownshape"):
            # the fibers were built with (smaller) shapes of their own before they joined the tensor: the footprint is defined by the rank's shape
            from fibertree import Tensor as _T
            t = _T.fromFiber(rank_ids=IDS[:depth], fiber=proj.build_fiber(case["tree"], shape=[s_ - 1 for s_ in case["shapes"]]), shape=list(case["shapes"]), name="T")
        else:
            t = proj.build_tensor(case["tree"], IDS[:depth], shape=case["shapes"])
        spec = {}
        for rid, s in zip(IDS[:depth], case["spec"]):
            d = {}
            for k, name in FIELDS.items():
                if s[k] not in (-1, ""):
                    d[name] = s[k]
            if d or case.get("keep_empty_rank", 1):
                spec[rid] = d
        rs = {k2: case["rootspec"][k] for k, k2 in (("h", "hbits"), ("p", "pbits")) if case["rootspec"][k] != -1}
        if rs or case.get("with_root", 1):
            spec["root"] = rs
        if case.get("narrow"):
            # active ranges narrower than the declared shapes (what a split leaves behind): footprints are defined by the shape
            def nar(f):
                if f.coords and isinstance(f.coords[0], int):
                    f.setActive((min(f.coords), max(f.coords) + 1))
                for p in f.payloads:
                    if isinstance(p, Fiber):
                        nar(p)
            nar(t.getRoot())
        for rid, f_ in zip(IDS[:depth], case.get("tfmts") or []):
            t.setFormat(rid, f_)              # what the TENSOR declares for its own iteration: the footprint specification is separate from it
        out["pre"] = proj.proj_tensor(t, oids)
        fm = Format(t, spec)
        for q in case["queries"]:
            r = dict(q)
            r["exc"] = "ok"
            try:
                if q["q"] == "fiber":
                    r["res"] = fm.getFiber(*q["pt"])
                elif q["q"] == "rank":
                    r["res"] = fm.getRank(IDS[q["r"] - 1])
                elif q["q"] == "root":
                    r["res"] = fm.getRoot()
                elif q["q"] == "tensor":
                    r["res"] = fm.getTensor()
                elif q["q"] == "subtree":
                    r["res"] = fm.getSubTree(*q["pt"])
                elif q["q"] == "elem":
                    r["res"] = fm.getElem(IDS[q["r"] - 1], "elem")
                elif q["q"] == "field":
                    rid = IDS[q["r"] - 1]
                    r["res"] = {"fmt": fm.getFormat, "layout": fm.getLayout, "c": fm.getCBits, "p": fm.getPBits, "fh": fm.getFHBits, "rh": fm.getRHBits}[q["f"]](rid)
                if not isinstance(r["res"], (int, str)) or isinstance(r["res"], bool):
                    r["res"] = repr(r["res"])
            except BaseException as ex:  # noqa: B036
                r["exc"] = "err:" + type(ex).__name__
                r["res"] = -1 if q["q"] != "field" or q["f"] not in ("fmt", "layout") else ""
            out["qs"].append(r)
        out["post"] = proj.proj_tensor(t, oids)
        if case.get("grow"):
            # the tensor grows (a new point is written) and the SAME Format object is asked again
            ref = t.getPayloadRef(*case["grow"])
            ref <<= 1
            out["grown"] = 1
            out["pre2"] = proj.proj_tensor(t, oids)
            for q in [{"q": "tensor"}] + [{"q": "rank", "r": r_} for r_ in range(1, depth + 1)] + [{"q": "subtree", "pt": []}, {"q": "fiber", "pt": []}]:
                r = dict(q)
                r["exc"] = "ok"
                try:
                    if q["q"] == "tensor":
                        r["res"] = fm.getTensor()
                    elif q["q"] == "rank":
                        r["res"] = fm.getRank(IDS[q["r"] - 1])
                    elif q["q"] == "subtree":
                        r["res"] = fm.getSubTree()
                    else:
                        r["res"] = fm.getFiber()
                except BaseException as ex:  # noqa: B036
                    r["exc"] = "err:" + type(ex).__name__
                    r["res"] = -1
                out["qs2"].append(r)
    except BaseException as ex:  # noqa: B036
        out["exc"] = "err:" + type(ex).__name__ + ":" + str(ex)[:80]
        out.setdefault("pre", {})
        out.setdefault("post", {})
    return out
