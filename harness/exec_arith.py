"""Executor for arithmetic cases (C11): operators on boxes / elements / scalars and fiber arithmetic."""
import operator
import sys
from fractions import Fraction

sys.path.insert(0, __import__("os").environ.get("VERIF_REPO", "/repo"))
from fibertree import Fiber, Payload, CoordPayload  # noqa: E402
from . import proj  # noqa: E402

BIN = {"add": operator.add, "sub": operator.sub, "mul": operator.mul, "truediv": operator.truediv, "floordiv": operator.floordiv,
       "lshift": operator.lshift, "and": operator.and_, "or": operator.or_, "eq": operator.eq, "ne": operator.ne,
       "lt": operator.lt, "le": operator.le, "gt": operator.gt, "ge": operator.ge}
INP = {"iadd": operator.iadd, "isub": operator.isub, "imul": operator.imul, "itruediv": operator.itruediv, "ilshift": operator.ilshift}


def val(q):
    n, d = q
    if d == 0:                              # the non-finite floats: <<0,0>> NaN, <<1,0>> +inf, <<-1,0>> -inf
        return float("nan") if n == 0 else float("inf") if n > 0 else float("-inf")
    return n if d == 1 else n / d          # dyadic rationals are exact floats


def rat(v):
    if isinstance(v, Payload):
        v = v.value
    if isinstance(v, CoordPayload):
        v = Payload.get(v.payload)
    if isinstance(v, bool):
        return [int(v), 1]
    if isinstance(v, float) and v != v:
        return [0, 0]
    if isinstance(v, float) and v in (float("inf"), float("-inf")):
        return [1 if v > 0 else -1, 0]
    f = Fraction(v)
    return [f.numerator, f.denominator]


def mk(kind, q, coord=3):
    """-> (operand object, the box behind it or None, holder fiber)"""
    v = val(q)
    if kind == "scalar":
        return v, None, None
    if kind == "box":
        b = Payload(v)
        return b, b, None
    f = Fiber([coord], [v])
    e = f[0]                                  # CoordPayload holding the fiber's own box
    return e, f.payloads[0], f


def execute(case):
    if case["kind"] in ("fiber", "fiber2"):
        o = exec_fiber(case)
        o["kind"] = case["kind"]
        return o
    op = case["op"]
    out = {"tid": case["tid"], "kind": "scalar", "op": op, "lk": case["lk"], "rk": case["rk"], "x": case["x"], "y": case["y"], "exc": "ok",
           "res": {"kind": "none", "val": [0, 1]}, "same": 0, "boxval": [0, 1], "lafter": case["x"], "rafter": case["y"]}
    try:
        lo, lbox, lf = mk(case["lk"], case["x"])
        # the two elements of an element-element form sit at different coordinates in two cases out of three (operators speak about the values only)
        ro, rbox, rf = mk(case["rk"], case["y"], coord=(3, 5, 0)[case["tid"] % 3])
        if op in BIN:
            r = BIN[op](lo, ro)
        else:
            r = INP[op](lo, ro)
        kind = "box" if isinstance(r, Payload) else "elem" if isinstance(r, CoordPayload) else "none" if r is None else "bool" if isinstance(r, bool) else "scalar"
        out["res"] = {"kind": kind, "val": rat(r) if r is not None else [0, 1]}
        if op in INP:
            rb = r if isinstance(r, Payload) else (r.payload if isinstance(r, CoordPayload) else None)
            out["same"] = 1 if (rb is lbox and lbox is not None and (lf is None or lf.payloads[0] is lbox)) else 0
            out["boxval"] = rat(lf.payloads[0]) if lf is not None else rat(lbox)
        out["lafter"] = rat(lbox) if lbox is not None else case["x"]
        out["rafter"] = rat(rbox) if rbox is not None else case["y"]
    except BaseException as ex:  # noqa: B036
        out["exc"] = "err:" + type(ex).__name__
    return out


def exec_fiber(case):
    op, s, shape, d = case["op"], case.get("s", 0), case.get("shape", 5), case.get("d", 0)
    out = {"tid": case["tid"], "kind": "fiber", "op": op, "a": case["a"], "b": case["b"], "s": s, "shape": shape, "d": d, "exc": "ok",
           "res": {"k": "F", "e": []}, "same": 0, "aafter": case["a"], "bafter": case["b"]}
    try:
        a = proj.build_fiber(case["a"], default=d, shape=[shape])
        b = proj.build_fiber(case["b"], default=d, shape=[shape])
        if case.get("act"):
            a.setActive(tuple(case["act"]))
        a0 = a
        if op == "add_ff":
            r = a + b
        elif op == "mul_ff":
            r = a * b
        elif op == "add_fs":
            r = a + s
        elif op == "radd_fs":
            r = s + a
        elif op == "mul_fs":
            r = a * s
        elif op == "rmul_fs":
            r = s * a
        elif op == "iadd_ff":
            a += b
            r = a
        elif op == "imul_ff":
            a *= b
            r = a
        elif op == "iadd_fs":
            a += s
            r = a
        elif op == "imul_fs":
            a *= s
            r = a
        out["same"] = 1 if r is a0 else 0
        out["res"] = proj.strip(proj.proj_fiber(r))
        out["aafter"] = proj.strip(proj.proj_fiber(a0))
        out["bafter"] = proj.strip(proj.proj_fiber(b))
    except BaseException as ex:  # noqa: B036
        out["exc"] = "err:" + type(ex).__name__ + ":" + str(ex)[:60]
    return out
