"""A small interpreter that builds and runs sum-of-products kernels in the library's idiom with the REAL operators:
swizzleRanks to make operands concordant with the loop order, splitUniform for tiles, & / Fiber.intersection(style=...) to
co-iterate factors, << to drive the output, * and += on payloads.  It contains no expected values."""
import sys

sys.path.insert(0, __import__("os").environ.get("VERIF_REPO", "/repo"))
from fibertree import Fiber, Payload, Tensor  # noqa: E402
from fibertree.core.metrics import Metrics  # noqa: E402
from . import proj  # noqa: E402


def rid(v):
    """rank id of a loop variable: k -> K, tile parts k1 / k0 -> K.1 / K.0"""
    if len(v) == 2 and v[1] in "01":
        return v[0].upper() + "." + v[1]
    return v.upper()


def prepare(case):
    """-> (operand tensors as used by the nest, expr1 with ix in loop order, Z tensor)"""
    expr, order, ext = case["expr"], case["order"], case["extents"]
    tile = case.get("tile") or {}
    used = {}
    facs1 = []
    for f in expr["facs"]:
        ix = list(f["ix"])
        # operands declare their shapes, or (opnoshape) leave them to be estimated from the stored coordinates
        t = proj.build_tensor(case["ops"][f["t"]], [v.upper() for v in ix], shape=None if (case.get("opnoshape") and not case.get("ufmt")) else [ext[v] for v in ix], name=f["t"])     # (a rank declared uncompressed needs its extent)
        for tl in (tile, case.get("tile2") or {}):         # tile2: a second, non-output variable tiled as well (operands of four ranks)
            if tl and tl["v"] in ix:
                e_, s_ = ext[tl["v"]], tl["s"]
                n_ = -(-e_ // s_)
                if case.get("tilediv") and ix[0] == tl["v"] and -(-e_ // n_) == s_:
                    t = t / n_                      # the operator twin of splitUniform: n partitions of ceil(shape / n) coordinates of the root rank
                else:
                    t = t.splitUniform(tl["s"], rankid=tl["v"].upper())
                k = ix.index(tl["v"])
                ix = ix[:k] + [tl["v"] + "1", tl["v"] + "0"] + ix[k + 1:]
        want = [v for v in order if v in ix]
        if want != ix:
            t = t.swizzleRanks([rid(v) for v in want])
        for tn, v in case.get("ufmt", []):
            if tn == f["t"] and v in ix:
                t.setFormat(rid(v), "U")          # this rank is declared uncompressed: co-iteration sees every coordinate of its extent
        used[f["t"]] = t
        facs1.append({"t": f["t"], "ix": want})
    out = []
    for v in expr["out"]:
        out += [tile["v"] + "1", tile["v"] + "0"] if (tile and v == tile["v"]) else [v]
    out1 = [v for v in order if v in out]
    zshape = None
    if case.get("zshape", 1):
        zshape = [ext[v[0]] for v in out1]
    z = Tensor(rank_ids=[rid(v) for v in out1], shape=zshape, name="Z")
    return used, {"out": out1, "facs": facs1}, z


def run_nest(case, used, expr1, z, counters=None):
    order = case["order"]
    style = case.get("style", "tf")
    facs = expr1["facs"]
    out = expr1["out"]
    bodies = [0] * (len(order) + 1)
    abort_after = case.get("abort_after", 0)

    def rec(level, zcur, cur):
        if level == len(order):
            bodies[level] += 1
            if abort_after and bodies[level] >= abort_after:
                from .exec_metrics import Abort
                raise Abort()
            vals = [cur[f["t"]] for f in facs]
            prod = vals[0]
            for v in vals[1:]:
                prod = prod * v
            if prod != 0 or case.get("nofilter"):
                zcur += prod
            return
        v = order[level]
        part = [f["t"] for f in facs if v in f["ix"]]
        fibers = [cur[t] for t in part]
        if len(fibers) == 1:
            co = fibers[0]
        elif style == "tf":
            co = fibers[0] & fibers[1] if len(fibers) == 2 else Fiber.intersection(*fibers)
        else:
            co = Fiber.intersection(*fibers, style="leader-follower")
        if v in out:
            for c, (znext, ps) in zcur << co:
                bodies[level] += 1
                nxt = dict(cur)
                vals = (ps,) if len(fibers) == 1 else tuple(ps)
                for t, p in zip(part, vals):
                    nxt[t] = p
                rec(level + 1, znext, nxt)
        else:
            for c, ps in co:
                bodies[level] += 1
                nxt = dict(cur)
                vals = (ps,) if len(fibers) == 1 else tuple(ps)
                for t, p in zip(part, vals):
                    nxt[t] = p
                rec(level + 1, zcur, nxt)

    zroot = z.getRoot() if out else z.getPayloadRef()
    if case["expr"].get("prod"):
        # dense product reduction over the whole extent of every stored row
        a_m = used["A"].getRoot()
        for m, (p_ref, a_k) in zroot << a_m:
            bodies[0] += 1
            p_ref <<= 1
            for k, a_val in a_k.iterShape():
                p_ref *= a_val
        return bodies
    if case["expr"].get("plus"):
        # element-wise addition in the union idiom
        a_m, b_m = used["A"].getRoot(), used["B"].getRoot()
        # (the populate expression may have been built earlier, before the output was changed by another loop: what is traced is its iteration)
        for m, (z_ref, (mask, a_val, b_val)) in (case["_expr"] if case.get("_expr") is not None else (zroot << (a_m | b_m))):
            bodies[0] += 1
            z_ref <<= a_val + b_val
        return bodies
    rec(0, zroot, {t: used[t].getRoot() for t in used})
    return bodies


def z_projection(z):
    if not z.getRankIds():
        return {"rank0": 1, "val": Payload.get(z.getRoot())}
    return {"rank0": 0, "t": proj.proj_tensor(z)}
