"""Executor for attribute cases (C14): transforms on tensors with varied attributes, lazily produced fibers, fibers joining a tensor."""
import json
import sys

sys.path.insert(0, __import__("os").environ.get("VERIF_REPO", "/repo"))
from fibertree import Fiber, Payload, Tensor  # noqa: E402
from . import proj  # noqa: E402

IDS = ["K", "M", "N", "P"]


def id_text(x):
    return json.dumps(x, separators=(",", ":"))


def shape_text(s):
    if isinstance(s, tuple):
        return "(" + ",".join(shape_text(x) for x in s) + ")"
    return str(s)


def dflt_of(t):
    d = Payload.get(t.getDefault())
    return int(d) if isinstance(d, (int, float)) and d == int(d) else -999


def fibers_of(t):
    out = []

    def rec(f, lvl):
        try:
            act = f.getActive()
            act = [int(act[0]), int(act[1])] if all(isinstance(x, int) for x in act) else None
        except Exception:  # noqa: BLE001
            act = None
        sh = f.getShape(all_ranks=False)
        ok_int = all(isinstance(c, int) for c in f.coords)
        if act is not None and ok_int:
            out.append({"coords": list(f.coords), "act": act, "shape": sh if isinstance(sh, int) else -1,
                        "iteract": [c for c, _ in f.iterActive()], "iterocc": [c for c, _ in f.iterOccupancy()]})
        for p in f.payloads:
            if isinstance(p, Fiber):
                rec(p, lvl + 1)
    root = t.getRoot() if isinstance(t, Tensor) else t
    if isinstance(root, Fiber):
        rec(root, 0)
    return out


def execute(case):
    out = {k: v for k, v in case.items() if k not in ("tree", "tree2") and v is not None}
    out["exc"] = "ok"
    try:
        if case["kind"] == "ctor":
            exec_ctor(case, out)
        elif case["kind"] == "transform":
            exec_transform(case, out)
        elif case["kind"] == "lazy":
            exec_lazy(case, out)
        else:
            exec_owner(case, out)
    except BaseException as ex:  # noqa: B036
        out["exc"] = "err:" + type(ex).__name__ + ":" + str(ex)[:80]
    return out


def exec_transform(case, out):
    depth, op = case["depth"], case["op"]
    shape = case["shape"]
    t = proj.build_tensor(case["tree"], IDS[:depth], shape=shape if case["auth"] else None, default=case["dflt"])
    for rid, fm in zip(IDS[:depth], case["fmts"]):
        t.setFormat(rid, fm)
    t.setMutable(bool(case["mutable"]))
    for k, d in (("d", 0), ("levels", 1), ("style", "tuple"), ("guide", [])):
        out.setdefault(k, d)
    d, L = out["d"], out["levels"]
    src = t
    if op == "split":
        r = {"uniform": lambda: t.splitUniform(case["step"], depth=d, relativeCoords=bool(case.get("rel", 0))), "equal": lambda: t.splitEqual(case["step"], depth=d, relativeCoords=bool(case.get("rel", 0))),
             "nonuniform": lambda: t.splitNonUniform([0, case["step"]], depth=d), "unequal": lambda: t.splitUnEqual([case["step"], 1], depth=d)}[case["splitkind"]]()
    elif op == "flatten":
        r = t.flattenRanks(depth=d, levels=L, coord_style=out["style"])
    elif op == "merge":
        # the absolute / relative styles are meant to undo a split with absolute / relative coordinates
        sp = t.splitUniform(case["step"], depth=d, relativeCoords=(out["style"] == "relative"))
        r = sp.mergeRanks(depth=d, levels=1, coord_style=out["style"])
    elif op == "unflatten":
        src = t.flattenRanks(depth=d, levels=L, coord_style=out["style"])
        r = src.unflattenRanks(depth=d, levels=L)
    elif op == "swizzle":
        r = t.swizzleRanks([IDS[g - 1] for g in case["guide"]])
    elif op == "swap":
        r = t.swapRanks(depth=d)
    elif op == "splitswizzle":
        sp = t.splitUniform(case["step"], depth=d)
        ids1 = sp.getRankIds()
        r = sp.swizzleRanks([ids1[g - 1] for g in case["guide"]])
    elif op == "flatflat":
        r = t.flattenRanks(depth=1, levels=1, coord_style="tuple").flattenRanks(depth=0, levels=1, coord_style="tuple")
    else:
        raise ValueError(op)
    # operand attributes are those of the ORIGINAL tensor (for unflatten: the rule is "inverse of the flatten")
    out["ids0"] = [[x] for x in IDS[:depth]]
    out["shape0"] = list(shape)
    out["auth0"] = 1 if case["auth"] else 0
    out["fmts0"] = list(case["fmts"])
    out["dflt0"] = case["dflt"]
    out["mutable0"] = 1 if case["mutable"] else 0
    if op == "merge":
        out["ids0"] = [[x] for x in IDS[:d]] + [[IDS[d] + ".1"], [IDS[d] + ".0"]] + [[x] for x in IDS[d + 1:depth]]
        out["shape0"] = list(shape[:d + 1]) + [shape[d]] + list(shape[d + 1:])
        out["fmts0"] = list(case["fmts"][:d + 1]) + [case["fmts"][d]] + list(case["fmts"][d + 1:])
    out["ids1"] = [id_text(x) for x in r.getRankIds()]
    s1 = r.getShape(authoritative=True)
    out["shape1"] = [shape_text(x) for x in s1] if s1 else ["none"]
    out["fmts1"] = [str(x.getFormat()) for x in r.ranks]
    out["dflt1"] = dflt_of(r)
    out["mutable1"] = 1 if r.isMutable() else 0
    out["fibers"] = fibers_of(r)


def exec_lazy(case, out):
    op = case["op"]

    def mk(tree, act, rid, shape):
        f = proj.build_fiber(tree, shape=[shape])
        f.getRankAttrs().setId(rid)
        if act:
            f.setActive(tuple(act))
        return f
    a = mk(case["tree"], case.get("act_a"), "A", case["shape"])
    b = mk(case["tree2"], case.get("act_b"), "B", case["shape"])
    out["rids"] = ["A", "B"]
    out["acts"] = [[int(x) for x in a.getActive()], [int(x) for x in b.getActive()]]
    for k, d in (("s", 1), ("o", 0), ("hasiv", 0), ("iv", [0, 0]), ("target", "")):
        out.setdefault(k, d)
    if op == "and":
        r = a & b
    elif op == "or":
        r = a | b
    elif op == "xor":
        r = a ^ b
    elif op == "sub":
        r = a - b
    elif op == "lshift":
        r = a << b
    elif op == "intersection":
        r = Fiber.intersection(a, b, a)
    elif op == "union":
        r = Fiber.union(a, b)
    elif op == "coitershape":
        r = Fiber.coiterShape([a, b])
    elif op == "coiteractiveshape":
        r = Fiber.coiterActiveShape([a, b])
    elif op == "coiterrangeshape":
        r = Fiber.coiterRangeShape([a, b], 1, 4)
    elif op == "prune":
        r = a.prune(lambda i, c, p: c % 2 == 0)
    elif op == "project":
        s, o = out["s"], out["o"]
        kw = {"interval": tuple(out["iv"])} if out["hasiv"] else {}
        if out.get("target"):
            kw["rank_id"] = out["target"]
        r = a.project(trans_fn=lambda c: s * c + o, **kw)
    else:
        raise ValueError(op)
    out["rid"] = str(r.getRankAttrs().getId())
    act = r.getActive()
    out["act"] = [int(x) if isinstance(x, int) or (isinstance(x, float) and x == int(x)) else -999 for x in act]


def exec_owner(case, out):
    depth = case["depth"]
    f = proj.build_fiber(case["tree"], default=case["fdflt"], shape=[case["fshape"]] * depth)
    f.getRankAttrs().setId("OWN")
    if case.get("touch"):
        # the fiber is used on its own first (active range queried, iterated): whatever it remembers from then must give way to its rank's attributes
        _ = f.getActive()
        _ = [c for c, _ in f.iterActive()]
    if case["how"] == "fromFiber":
        t = Tensor.fromFiber(rank_ids=IDS[:depth], fiber=f, shape=[case["tshape"]] * depth, default=case["tdflt"])
    else:
        t = Tensor(rank_ids=IDS[:depth], shape=[case["tshape"]] * depth, default=case["tdflt"])
        t.setRoot(f)
    root = t.getRoot()
    leaf = root
    lvl = 0
    while leaf.payloads and isinstance(leaf.payloads[0], Fiber):
        leaf = leaf.payloads[0]
        lvl += 1
    out["maxcoord"] = max([c for c in root.coords if isinstance(c, int)] + [-1])
    out["after_rid"] = str(root.getRankAttrs().getId())
    out["rank_rid"] = str(t.ranks[0].getId())
    act = root.getActive()
    out["after_act"] = [int(act[0]), int(act[1])]
    out["after_shape"] = root.getShape(all_ranks=False)
    out["rank_shape"] = t.ranks[0].getShape(all_ranks=False)
    d1 = Payload.get(leaf.getDefault())
    d2 = Payload.get(t.ranks[lvl].getDefault())          # the rank of the deepest fiber reached (an empty tree has only its root)
    out["after_dflt"] = int(d1) if isinstance(d1, int) else (-997 if d1 is Fiber else -999)
    out["rank_dflt"] = int(d2) if isinstance(d2, int) else (-997 if d2 is Fiber else -998)


def exec_ctor(case, out):
    """a tensor built from an uncompressed nest WITHOUT a declared shape; the nest may be ragged across parents (sub-lists of one parent have equal lengths,
    those of another parent may be longer): every stored coordinate must lie inside the shape the tensor reports"""
    depth = case["depth"]
    if case.get("how") == "empty":
        # the empty constructor without a shape: the tensor is populated, asked for its shape (and its fibers for their active ranges), populated further
        t = Tensor(rank_ids=IDS[:depth])
        for k, pts in enumerate(case["phases"]):
            for pt in pts:
                ref = t.getPayloadRef(*pt)
                ref += 1
            if k < len(case["phases"]) - 1:
                _ = t.getShape(), t.getShape(authoritative=True), [x["act"] for x in fibers_of(t)]
        out["fibers"] = fibers_of(t)
        return
    t = Tensor.fromUncompressed(IDS[:depth], case["nest"])
    out["fibers"] = fibers_of(t)
