"""Executor for codec cases (C20): encodes a tensor exactly as swoop_util.encodeSwoopTensorInFormat does (that module itself
needs `boltons`, which is not installed, so its few lines are reproduced with a dict-backed stand-in for the LRU cache)."""
import contextlib
import io
import sys

sys.path.insert(0, __import__("os").environ.get("VERIF_REPO", "/repo"))
from fibertree import Tensor  # noqa: E402
from fibertree.codec.tensor_codec import Codec  # noqa: E402
from fibertree.codec.formats.compression_format import CompressionFormat  # noqa: E402
from . import proj  # noqa: E402

IDS = ["K", "M", "N"]


class StubCache(dict):
    """stands in for boltons LRU: get / __setitem__ / miss_count / hit_count"""
    miss_count = 0
    hit_count = 0

    def get(self, k, default=None):
        if k in self:
            self.hit_count += 1
            return self[k]
        self.miss_count += 1
        return default


def encode(tensor, descriptor, shape):
    codec = Codec(tuple(descriptor), [True] * len(descriptor))
    rank_names = tensor.getRankIds()
    output = codec.get_output_dict(rank_names)
    output_tensor = [list() for _ in range(len(descriptor) + 1)]
    codec.encode(-1, tensor.getRoot(), tensor.getRankIds(), output, output_tensor, shape=shape)
    cache = StubCache()
    names = ["root"] + tensor.getRankIds()
    for ri, rank in enumerate(output_tensor):
        for fi, fiber in enumerate(rank):
            fiber.setName("_".join([tensor.getName(), names[ri], str(fi)]))
            fiber.cache = cache
    return output, output_tensor


def ints(xs):
    return [int(x) if isinstance(x, (int, bool)) else -999 for x in xs]


def fiber_info(f, fmt, shape_d, leaf):
    info = {"fmt": fmt, "coords": ints(f.coords), "occ": ints(f.occupancies), "npay": len(f.payloads),
            "pays": ints(f.payloads) if leaf else [], "shape": int(shape_d), "leaf": 1 if leaf else 0,
            "scan": [], "scan_exc": "ok", "lookups": [], "size": -1, "size_exc": "ok"}
    try:
        f.setupSlice(0)
        for _ in range(200):
            h = f.nextInSlice()
            if h is None:
                break
            c = f.handleToCoord(h)
            ph = f.handleToPayload(h)
            pv = -1
            if leaf and ph is not None and 0 <= ph < len(f.payloads):
                pv = int(f.payloads[ph])
            info["scan"].append([int(c) if c is not None else -1, int(ph) if isinstance(ph, int) else -1, pv])
    except BaseException as ex:  # noqa: B036
        info["scan_exc"] = "err:" + type(ex).__name__
    if fmt == "C":
        try:
            for q in range(0, shape_d + 2):
                h = f.coordToHandle(q)
                info["lookups"].append([q, -1 if h is None else int(h)])
        except BaseException as ex:  # noqa: B036
            info["lookups"] = [[-7, -7]]
            info["scan_exc"] = "lookup-err:" + type(ex).__name__
    try:
        info["size"] = int(f.getSize())
    except BaseException as ex:  # noqa: B036
        info["size_exc"] = "err:" + type(ex).__name__
    return info


def execute(case):
    depth, desc = case["depth"], case["desc"]
    base = case["base_shape"]
    shape = case["shape"]
    out = {"tid": case["tid"], "desc": desc, "depth": depth, "tree": case["tree"], "imposed": 1 if case.get("impose") else 0,
           "shape": shape, "dflt": case.get("dflt", 0), "exc": "ok", "coords": [[] for _ in desc], "pays": [[] for _ in desc], "rootp": [], "fibers": []}
    try:
        t = proj.build_tensor(case["tree"], IDS[:depth], shape=base, name="T", default=case.get("dflt", 0))
        with contextlib.redirect_stdout(io.StringIO()):
            output, output_tensor = encode(t, desc, shape if case.get("impose") else None)
            out["rootp"] = ints(output["payloads_root"])
            for d, rid in enumerate(IDS[:depth]):
                out["coords"][d] = ints(output["coords_" + rid.lower()])
                out["pays"][d] = ints(output["payloads_" + rid.lower()])
            for d in range(depth):
                infos = []
                for f in output_tensor[d + 1]:
                    infos.append(dict(fiber_info(f, desc[d], shape[d], d == depth - 1), d=d + 1,
                                      nextexp=1 if (d < depth - 1 and desc[d + 1] in ("C", "B")) else 0))
                # the same scans again with all fibers of the rank in progress at once (lock step): every fiber has its own handle interface
                fs = list(output_tensor[d + 1])
                scans = [[] for _ in fs]
                try:
                    for f in fs:
                        f.setupSlice(0)
                    live = list(range(len(fs)))
                    for _ in range(200):
                        nxt = []
                        for k in live:
                            h = fs[k].nextInSlice()
                            if h is None:
                                continue
                            c = fs[k].handleToCoord(h)
                            ph = fs[k].handleToPayload(h)
                            pv = -1
                            if d == depth - 1 and ph is not None and 0 <= ph < len(fs[k].payloads):
                                pv = int(fs[k].payloads[ph])
                            scans[k].append([int(c) if c is not None else -1, int(ph) if isinstance(ph, int) else -1, pv])
                            nxt.append(k)
                        live = nxt
                        if not live:
                            break
                except BaseException:  # noqa: B036
                    scans = [[[-7, -7, -7]] for _ in fs]
                for info, sc in zip(infos, scans):
                    info["scan2"] = sc
                    info["ins_coords"], info["ins_lookups"] = [], []
                if d == depth - 1 and desc[d] == "C":
                    # last of all (the fibers are changed by it): a coordinate is inserted in mid-list after every coordinate was looked up, and every
                    # coordinate is looked up again - the lookups follow the list as it is now
                    for f, info in zip(fs, infos):
                        cs = ints(f.coords)
                        free = [c for c in range(0, max(cs)) if c not in cs] if cs else []
                        if not free or not hasattr(f, "insertElement"):
                            continue
                        try:
                            f.insertElement(free[0])
                            after = ints(f.coords)
                            lk = []
                            for q in range(0, shape[d] + 2):
                                h = f.coordToHandle(q)
                                lk.append([q, -1 if h is None else int(h)])
                            info["ins_coords"], info["ins_lookups"] = after, lk
                        except BaseException:  # noqa: B036 - insertion into an encoded fiber is outside what C20 states; only the lookups after a successful one are judged
                            pass
                out["fibers"] += infos
    except BaseException as ex:  # noqa: B036
        out["exc"] = "err:" + type(ex).__name__ + ":" + str(ex)[:80]
    return out
