"""python3 -m harness.mutation_recheck <Cfrom> <Cagainst> : re-run the surviving automatic mutants recorded in mutation/<Cfrom>.json against another
property's check (a survivor of one property's sweep often belongs to a neighbouring property).  Scratch worktree only."""
import json
import os
import sys

from . import mutation as M


def main():
    src, against = sys.argv[1], sys.argv[2]
    d = json.load(open(os.path.join(M.ROOT, "mutation", src + ".json")))
    os.makedirs(M.WT, exist_ok=True)
    wt = M.prepare_worktree(90)
    try:
        for m in d["survived"]:
            cur = M.sh(f"git -C /repo show HEAD:{m['file']}").stdout.splitlines()
            # relocate by text (HEAD may have moved since the sweep)
            cands = [k for k, t in enumerate(cur, 1) if t == m["old"]]
            if not cands:
                print("gone     ", m["file"], m["line"], m["old"].strip()[:60])
                continue
            ln = min(cands, key=lambda k: abs(k - m["line"]))
            mm = dict(m, line=ln)
            r = M.run_check(against, wt, mm)
            rc = r[against]["rc"]
            m.setdefault("rechecked", {})[against] = {"rc": rc, "clauses": r[against]["clauses"][:3]}
            print("killed   " if rc == 1 else "survived " if rc == 0 else "failure  ", m["file"], ln, m["old"].strip()[:50], "->", m["new"].strip()[:50], r[against]["clauses"][:2], flush=True)
    finally:
        M.sh(f"git -C /repo worktree remove --force {wt}")
        M.sh("git -C /repo worktree prune")
    json.dump(d, open(os.path.join(M.ROOT, "mutation", src + ".json"), "w"), indent=1)


if __name__ == "__main__":
    main()
