"""C09 - rank transforms move every point to its image and nothing else"""
import itertools
from . import tlc, family
from .c05 import rand_tree


def small_trees(depth, nc=2):
    """all trees of the given depth over nc coordinates with leaf values {absent,0,1} (explicit defaults, empty sub-fibers included)"""
    if depth == 1:
        lv = []
        for vs in itertools.product([-1, 0, 1], repeat=nc):
            lv.append({"k": "F", "e": [[c, {"k": "L", "v": v}] for c, v in enumerate(vs) if v >= 0]})
        return lv
    subs = small_trees(depth - 1, nc)
    out = []
    for ch in itertools.product([None] + subs, repeat=nc):
        out.append({"k": "F", "e": [[c, s] for c, s in enumerate(ch) if s is not None]})
    return out


def cases_for(ctx, t, depth, rng):
    cs = []
    perms = [list(p) for p in itertools.permutations(range(1, depth + 1))]
    for g in (perms if depth <= 3 else rng.sample(perms, 6)):
        cs.append({"op": "swizzle", "tree": t, "depth": depth, "guide": g})
    for d in range(depth - 1):
        cs.append({"op": "swap", "tree": t, "depth": depth, "d": d, "via": rng.choice(["tensor", "fiber"])})
        for levels in range(1, depth - d):
            for style in ("tuple", "pair", "linear"):
                cs.append({"op": "flatten", "tree": t, "depth": depth, "d": d, "levels": levels, "style": style,
                           "via": "tensor" if style == "linear" else rng.choice(["tensor", "fiber"])})
                if style != "linear" and rng.random() < (0.7 if levels >= 2 else 0.3) and classify_tree(t) == "canonical":
                    # the same round trip under a leaf default of 2 (a stored 2 is no content, a stored 0 is)
                    def remap(p):      # no stored default: the 2s become 0s (genuine content under default 2)
                        return {"k": "L", "v": 0 if p["v"] == 2 else p["v"]} if p["k"] == "L" else {"k": "F", "e": [[c, remap(q)] for c, q in p["e"]]}
                    cs.append(dict(cs[-1], tree=remap(t), dflt=2, via=rng.choice(["tensor", "fiber", "fiber"])))
            for style in ("absolute", "relative"):
                cs.append({"op": "merge", "tree": t, "depth": depth, "d": d, "levels": levels, "style": style, "fn": rng.choice(["sum", "max"]),
                           "via": rng.choice(["tensor", "fiber"])})
    for d in range(depth):
        # (a split below the root leaves 'ghost' sub-fibers unsplit - known findings F-C08-ghost-unsplit / F-C09-ghost-*: not repeated here)
        if rng.random() < 0.5 and not (d > 0 and classify_tree(t) == "ghost"):
            cs.append({"op": "splitswizzle", "tree": t, "depth": depth, "d": d, "step": rng.choice([1, 2, 3]), "via": "tensor"})
    if depth >= 3:
        # a swap in which one of the two ranks already holds tuple coordinates (flattened before)
        for fd in range(depth - 1):
            for d in range(depth - 2):
                if d in (fd - 1, fd):
                    cs.append({"op": "flatswap", "tree": t, "depth": depth, "fd": fd, "d": d, "style": rng.choice(["tuple", "pair"]), "via": "tensor"})
    for d in range(depth):
        cs.append({"op": "splitflatten", "tree": t, "depth": depth, "d": d, "step": rng.randint(1, 3), "via": rng.choice(["tensor", "fiber"])})
        cs.append({"op": "updcoords", "tree": t, "depth": depth, "d": d, "fn": rng.choice(["shift", "reverse", "double"])})
    cs.append({"op": "updpayloads", "tree": t, "depth": depth, "fn": "dbl"})
    return cs


def content_empty(p):
    if p["k"] == "L":
        return p["v"] == 0
    return all(content_empty(q) for _, q in p["e"])


def classify_tree(t):
    """canonical | empties (only truly empty fibers / explicit default leaves next to real content) |
    ghost (some stored sub-fiber below the root has stored elements but no content, e.g. a row holding only explicit zeros)"""
    ghost = [False]
    irr = [False]

    def rec(p, top):
        for _, q in p["e"]:
            if q["k"] == "F":
                if not q["e"]:
                    irr[0] = True
                elif content_empty(q):
                    ghost[0] = True
                rec(q, False)
            elif q["v"] == 0:
                irr[0] = True
    rec(t, True)
    if not t["e"]:
        return "empty"
    return "ghost" if ghost[0] else "irregular" if irr[0] else "canonical"


def where(c):
    return classify_tree(c["tree"]) + f":depth{c['depth']}:{c.get('via', 'tensor')}"


def run(ctx):
    cfg = tlc.write_cfg("MC_Transform_run.cfg", "CONSTANTS\n NC = 2\nINIT Init\nNEXT Next\nINVARIANT DesignOK\nCHECK_DEADLOCK FALSE\n")
    r = tlc.model_check("MC_Transform.tla", cfg, workers=4)
    design = [family.design_entry("MC_Transform", "laws", r, "exhaustive over all 256 content sets on a 2x2x2 grid: inverse permutation restores, swap is an involution, "
                                  "tuple/linear images are injective, unflatten inverts flatten, merge without collisions = flatten", ["DesignOK"])]
    rng = ctx.rng
    cases = []
    d2 = small_trees(2)
    d3 = small_trees(3)
    pick2 = d2 if not ctx.quick else rng.sample(d2, min(len(d2), 120))
    pick3 = rng.sample(d3, 120 if ctx.quick else 1500)
    for t in pick2:
        cases += cases_for(ctx, t, 2, rng)
    for t in pick3:
        cases += cases_for(ctx, t, 3, rng)
    # fixed depth-3 trees with a truly empty sub-fiber first / in the middle (never last: that class belongs to a known finding) next to populated ones
    L = lambda *cv: {"k": "F", "e": [[c, {"k": "L", "v": v}] for c, v in cv]}          # noqa: E731
    E = {"k": "F", "e": []}
    fixed = [
        {"k": "F", "e": [[0, E], [1, {"k": "F", "e": [[0, L((0, 1), (2, 1))]]}], [2, {"k": "F", "e": [[0, L((0, 1), (1, 2))], [1, L((2, 1))]]}]]},
        {"k": "F", "e": [[0, {"k": "F", "e": [[1, L((1, 2))]]}], [1, E], [2, {"k": "F", "e": [[0, L((0, 1))], [2, L((1, 1), (2, 2))]]}]]},
        {"k": "F", "e": [[0, {"k": "F", "e": [[0, E], [1, L((0, 1), (1, 1))]]}], [2, {"k": "F", "e": [[0, L((2, 2))], [1, E], [2, L((0, 1))]]}]]},
    ]
    for t in fixed:
        cases += cases_for(ctx, t, 3, rng)
    # linear flattening over several levels of a depth-4 tree whose middle fiber ends with an empty sub-fiber (the shape of the merged lower ranks has to be
    # learnt from the siblings)
    t4 = {"k": "F", "e": [[0, {"k": "F", "e": [[1, {"k": "F", "e": [[1, L((2, 1))]]}]]}],
                          [1, {"k": "F", "e": [[0, {"k": "F", "e": [[0, L((1, 1), (3, 2))], [2, L((0, 2))]]}], [1, {"k": "F", "e": [[0, L((2, 1))], [1, L((0, 2), (3, 1))]]}], [2, E]]}]]}
    for d, lv in ((0, 3), (0, 2), (1, 2), (0, 1), (1, 1)):
        cases.append({"op": "flatten", "tree": t4, "depth": 4, "d": d, "levels": lv, "style": "linear", "via": "tensor"})
    for _ in range(90 if ctx.quick else 1000):
        depth = rng.choice([3, 4])
        cases += cases_for(ctx, rand_tree(rng, 3, depth, pz=0.2, pabs=0.3), depth, rng)
    part = family.run_family(ctx, "C09", cases, "harness.exec_transform", "TransformTrace.tla", "TransformTrace.cfg",
                             op_of=lambda c, lg, st: c["op"] + (":" + c["style"] if "style" in c else ""), where_of=lambda c, lg, st: where(c),
                             nontrivial=lambda c, lg: bool(c["tree"]["e"]))
    res = {"design": design, "states": r["stats"]["distinct"], "transitions": r["stats"]["generated"], "exhaustive": False,
           "rule": "a case is one transform (swizzle + inverse for every permutation, swap, flatten in every (depth, levels, style) + unflatten, merge "
                   "absolute/relative with sum/max, split + absolute flatten, coordinate / payload update below every depth) executed on a tensor through the "
                   "Tensor or Fiber entry point; trees: all / sampled two- and three-level trees over 2 coordinates with explicit defaults and empty "
                   "sub-fibers, random depth 3-4 trees; non-trivial = the tree stores an element",
           "assumptions": ["declared shapes (linear flattening needs them)", "unflatten only of tuple / pair styles (the others are documented as lossy)",
                           "leaf values positive so that sums of colliding points are non-default"],
           "scope": {"cases": len(cases)}}
    return family.merge(res, part)


def replay(ctx, rec):
    return family.replay_family(ctx, "C09", rec, "harness.exec_transform", "TransformTrace.tla", "TransformTrace.cfg")
