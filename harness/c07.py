"""C07 - every traversal mode enumerates exactly the slice of content it names"""
import itertools
from . import tlc, family


def trees(nc, vals):
    out = []
    for vs in itertools.product([-1] + list(vals), repeat=nc):
        out.append({"k": "F", "e": [[c, {"k": "L", "v": v}] for c, v in enumerate(vs) if v >= 0]})
    return out


def valid_sp(tree, sp, haslo, lo):
    e = tree["e"]
    if sp == -1:
        return True
    if sp == 0:
        return len(e) > 0
    return sp < len(e) and haslo and e[sp - 1][0] < lo


def cases_for(ctx):
    nc = 4
    ts = trees(nc, [0, 1, 2])          # 256 fibers over 4 coordinates incl. explicit defaults
    rng = ctx.rng
    cases = []
    budget = 3 if ctx.quick else 16
    for t in ts:
        for _ in range(budget):
            lo, hi = rng.randint(-1, nc + 1), rng.randint(-1, nc + 1)
            haslo, hashi = rng.choice([0, 1, 1]), rng.choice([0, 1, 1])
            sps = [sp for sp in range(-1, nc) if valid_sp(t, sp, haslo, lo)]
            cases.append({"kind": "iter", "mode": "range", "f": t, "lo": lo, "hi": hi, "haslo": haslo, "hashi": hashi, "sp": rng.choice(sps)})
            cases.append({"kind": "iter", "mode": "occ", "f": t, "sp": rng.choice([-1, 0]) if t["e"] else -1})
            a0 = rng.randint(0, nc)
            act = [a0, rng.randint(a0, nc + 1)]
            hasact = rng.choice([0, 1])
            sps = [sp for sp in range(-1, nc) if valid_sp(t, sp, 1, act[0] if hasact else 0)]
            cases.append({"kind": "iter", "mode": "active", "f": t, "hasact": hasact, "act": act, "shape": nc + 1, "sp": rng.choice(sps)})
            cases.append({"kind": "iter", "mode": rng.choice(["shape", "activeshape"]), "f": t, "hasact": hasact, "act": act, "shape": nc + 1})
            cases.append({"kind": "iter", "mode": "rangeshape", "f": t, "lo": max(0, lo), "hi": hi, "step": rng.randint(1, 3)})
            cases.append({"kind": "iter", "mode": "default", "f": t, "fmt": rng.choice(["C", "U"]), "emb": rng.choice(["fiber", "tensor1"]),
                          "hasact": hasact, "act": act, "shape": nc + 1})
            cases.append({"kind": "iterref", "mode": rng.choice(["shaperef", "rangeshaperef", "activeshaperef"]), "f": t, "lo": max(0, lo), "hi": hi,
                          "step": rng.randint(1, 3), "hasact": hasact, "act": act, "shape": nc + 1, "emb": rng.choice(["fiber", "tensor1"])})
            g = rng.choice(ts)
            cases.append({"kind": "coiter", "mode": rng.choice(["shape", "shaperef", "activeshape", "activeshaperef", "rangeshape", "rangeshaperef"]),
                          "f": t, "g": g, "lo": max(0, lo), "hi": hi, "step": rng.randint(1, 2), "hasact": hasact, "act": act, "shape": nc + 1})
            s = rng.choice([1, 2, -1, -2])
            o = rng.randint(0, 3) + (8 if s < 0 else 0)
            hasiv = rng.choice([0, 1])
            i0 = rng.randint(0, 8)
            cases.append({"kind": "project", "f": t, "s": s, "o": o, "hasiv": hasiv, "iv": [i0, i0 + rng.randint(0, 6)], "shape": nc + 1})
            # a valid saved position: every skipped element lies below the interval, in old coordinates (the library's precondition) and in new ones
            if s > 0 and t["e"]:
                i1 = rng.randint(0, 8)
                sps = [k for k in range(len(t["e"])) if k == 0 or (t["e"][k - 1][0] < i1 and s * t["e"][k - 1][0] + o < i1)]
                cases.append({"kind": "project", "f": t, "s": s, "o": o, "hasiv": 1, "iv": [i1, i1 + rng.randint(0, 6)], "shape": nc + 1, "sp": rng.choice(sps)})
            cases.append({"kind": "prune", "f": t, "pred": rng.choice(["evencoord", "bigval", "evenpos", "all"]), "shape": nc + 1})
            if rng.random() < 0.5:
                # pruning a fiber whose rank is declared uncompressed (positions are offsets into the active range)
                cases.append({"kind": "prune", "f": t, "pred": rng.choice(["evencoord", "bigval", "evenpos", "evenpos", "all"]), "shape": nc + 1, "fmt": "U",
                              "hasact": hasact, "act": act, "emb": rng.choice(["fiber", "tensor1"])})
    # loop bodies that update a delivered stand-in in place (later absent coordinates must still read the default), and traversals abandoned after a few yields
    # (reference variants insert exactly the VISITED coordinates)
    for c in list(cases):
        if c["kind"] == "iter" and c["mode"] in ("shape", "rangeshape", "activeshape", "default") and rng.random() < 0.5:
            cases.append(dict(c, poke=1))
        elif c["kind"] == "coiter" and "ref" not in c["mode"] and rng.random() < 0.5:
            cases.append(dict(c, poke=1))
        elif (c["kind"] == "iterref" or (c["kind"] == "coiter" and "ref" in c["mode"])) and rng.random() < 0.6:
            cases.append(dict(c, take=rng.randint(0, 2)))
    # fibers WITHOUT a declared shape but with an explicit active range (beyond the last stored coordinate too): the active-range traversals follow the range
    for c in list(cases):
        if c.get("hasact") and c.get("emb", "fiber") == "fiber" and not c.get("fmt") and rng.random() < 0.4 and \
                ((c["kind"] in ("iter", "iterref") and c["mode"] in ("active", "activeshape", "activeshaperef")) or (c["kind"] == "coiter" and c["mode"] in ("activeshape", "activeshaperef"))):
            a0 = c["act"][0]
            cases.append(dict(c, noshape=1, act=[a0, max(c["act"][1], a0) + rng.randint(0, 3)]))
    # fibers that were traversed and queried, THEN grown by appends, then traversed (the traversal follows the content as it is now); with a declared shape, and
    # without shape or active range (the extent is then one past the last stored coordinate - the case's `shape` says so)
    for c in list(cases):
        if c["kind"] in ("iter", "iterref") and c.get("emb", "fiber") == "fiber" and len(c["f"]["e"]) >= 2 and c.get("sp", -1) == -1 and rng.random() < 0.5:
            k = rng.randint(0, len(c["f"]["e"]) - 1)
            cases.append(dict(c, warm=k))
            if c["mode"] in ("active", "activeshape", "activeshaperef", "occ", "default") and not c.get("fmt") and not c.get("noshape"):
                ext = c["f"]["e"][-1][0] + 1
                cases.append(dict(c, noshape=1, hasact=0, shape=ext, warm=k))
                cases.append(dict(c, noshape=1, hasact=0, shape=ext))
    # the same traversals over fibers whose rank default is 2 (a stored 2 is the explicit default, a stored 0 is content)
    for c in list(cases):
        if rng.random() < (0.35 if ctx.quick else 0.6):
            cases.append(dict(c, dflt=2))
    # wider random fibers
    for _ in range(200 if ctx.quick else 4000):
        t = {"k": "F", "e": [[c, {"k": "L", "v": rng.choice([0, 1, 2, 3])}] for c in range(10) if rng.random() < 0.5]}
        lo, hi = rng.randint(0, 10), rng.randint(0, 11)
        cases.append({"kind": "iter", "mode": "rangeshape", "f": t, "lo": lo, "hi": hi, "step": rng.randint(1, 4), "shape": 11})
        cases.append({"kind": "iter", "mode": "range", "f": t, "lo": lo, "hi": hi, "haslo": 1, "hashi": 1, "shape": 11})
        s = rng.choice([1, 3, -1, -3])
        cases.append({"kind": "project", "f": t, "s": s, "o": rng.randint(0, 5) + (30 if s < 0 else 0), "hasiv": rng.choice([0, 1]),
                      "iv": [rng.randint(0, 15), rng.randint(10, 40)], "shape": 11})
    # fibers that also store elements at negative coordinates (halos; the lazy result of project(c -> c - k)): a range or an active range that starts at 0 clips them
    for _ in range(150 if ctx.quick else 3000):
        t = {"k": "F", "e": [[c, {"k": "L", "v": rng.choice([0, 1, 2, 3])}] for c in range(-3, 7) if rng.random() < 0.6]}
        lo = rng.choice([0, 0, -1, 2])
        cases.append({"kind": "iter", "mode": "range", "f": t, "lo": lo, "hi": rng.randint(lo, 8), "haslo": 1, "hashi": rng.choice([0, 1]), "shape": 8})
        cases.append({"kind": "iter", "mode": "active", "f": t, "hasact": 1, "act": [0, rng.randint(1, 8)], "shape": 8})
        cases.append({"kind": "iter", "mode": "occ", "f": t, "shape": 8})
    return cases


def run(ctx):
    cfg = tlc.write_cfg("MC_Traverse_run.cfg", f"CONSTANTS\n NC = {4 if ctx.quick else 5}\nINIT Init\nNEXT Next\nINVARIANT DesignOK\nCHECK_DEADLOCK FALSE\n")
    r = tlc.model_check("MC_Traverse.tla", cfg, workers=8)
    design = [family.design_entry("MC_Traverse", "iterRange", r, "exhaustive: operational iterRange loop with every valid start position = declarative slice", ["DesignOK"])]
    cases = cases_for(ctx)
    part = family.run_family(ctx, "C07", cases, "harness.exec_iter", "IterTrace.tla", "IterTrace.cfg",
                             op_of=lambda c, lg, st: c["kind"] + ":" + c.get("mode", c.get("pred", "")),
                             where_of=lambda c, lg, st: ("alldefault" if c["f"]["e"] and all(p["v"] == 0 for _, p in c["f"]["e"]) else "general") + (":" + c.get("fmt", "C")),
                             nontrivial=lambda c, lg: bool(c["f"]["e"]))
    res = {"design": design, "states": r["stats"]["distinct"], "transitions": r["stats"]["generated"], "exhaustive": False,
           "rule": "a case is one traversal (fiber, mode, range/step/active range/shape, start position, rank format, projection or predicate) executed on the "
                   "implementation; all 256 fibers over 4 coordinates with values {absent,0,1,2} are used with sampled parameters (the design-level TLC run "
                   "covers the whole parameter product for iterRange), plus seeded random 10-coordinate fibers; non-trivial = the fiber stores an element",
           "assumptions": ["a start position is valid when every element before it lies before the range start (position 0 always)",
                           "affine monotone transforms s*c+o with s in {1,2,3,-1,-2,-3}", "project(start_pos=...) is exercised with positions that are valid in old and in new coordinates (the library's precondition compares old coordinates with the new interval)"],
           "scope": {"fibers": 256, "random_fibers": 200 if ctx.quick else 4000}}
    return family.merge(res, part)


def replay(ctx, rec):
    return family.replay_family(ctx, "C07", rec, "harness.exec_iter", "IterTrace.tla", "IterTrace.cfg")
