"""C19 - intersection and merge cost models count what the hardware idiom would do"""
import itertools
from . import tlc, family


def subsets(nc):
    out = []
    for r in range(nc + 1):
        out += [list(c) for c in itertools.combinations(range(nc), r)]
    return out


def compositions(n):
    if n == 0:
        return [[]]
    out = []
    for first in range(1, n + 1):
        out += [[first] + rest for rest in compositions(n - first)]
    return out


def run(ctx):
    rng = ctx.rng
    cfg = tlc.write_cfg("MC_Cost_run.cfg", f"CONSTANTS\n NC = {4 if ctx.quick else 5}\nINIT Init\nNEXT Next\nINVARIANT DesignOK\nCHECK_DEADLOCK FALSE\n")
    r = tlc.model_check("MC_Cost.tla", cfg, workers=4)
    design = [family.design_entry("MC_Cost", "laws", r, "exhaustive over all pairs of coordinate lists: cost bounds, symmetry, identical lists, closed form of the finite-latency "
                                  "swap count, bound of the comparison count", ["DesignOK"])]
    ss = subsets(4)
    cases = []
    pairs_all = list(itertools.product(ss, ss))
    for a, b in (pairs_all if not ctx.quick else rng.sample(pairs_all, 120)):
        cases.append({"kind": "intersect", "pairs": [[a, b]], "batchings": [[1]]})
    for _ in range(250 if ctx.quick else 6000):
        n = rng.choice([2, 3])
        pairs = [[rng.choice(ss), rng.choice(ss)] for _ in range(n)]
        cases.append({"kind": "intersect", "pairs": pairs, "batchings": compositions(n)})
    for _ in range(60 if ctx.quick else 1500):
        n = rng.choice([2, 3])
        pairs = [[sorted(rng.sample(range(8), rng.randint(0, 6))), sorted(rng.sample(range(8), rng.randint(0, 6)))] for _ in range(n)]
        cases.append({"kind": "intersect", "pairs": pairs, "batchings": compositions(n)})
    # two loop ranks above the intersected one; tuple coordinates of the intersected rank flattened with two different widths in consecutive sessions
    for c in list(cases):
        if c["kind"] == "intersect" and len(c["pairs"]) > 1 and rng.random() < 0.4:
            cases.append(dict(c, outer2=1))
        elif c["kind"] == "intersect" and rng.random() < 0.25:
            cases.append(dict(c, tuplew=[4, 8] if rng.random() < 0.5 else [8, 3]))
    for _ in range(120 if ctx.quick else 2500):
        n = rng.choice([1, 2])
        pairs = [[sorted(rng.sample(range(24), rng.randint(1, 8))), sorted(rng.sample(range(24), rng.randint(1, 8)))] for _ in range(n)]
        cases.append({"kind": "intersect", "pairs": pairs, "batchings": compositions(n), "tuplew": rng.choice([[4, 8], [8, 3], [6, 4], [5, 12]])})
    # an empty leading batch (the traces are handed to the model once before anything was intersected), then fiber by fiber
    for c in cases:
        if c["kind"] == "intersect" and rng.random() < 0.3:
            c["batchings"] = list(c["batchings"]) + [[0] + [1] * len(c["pairs"])]
        if c["kind"] == "intersect" and not c.get("tuplew") and not c.get("outer2") and rng.random() < 0.4:
            c["oponly"] = 1
    for _ in range(250 if ctx.quick else 5000):
        k = rng.randint(2, 5)
        lists = [sorted(rng.sample(range(8), rng.randint(1, 5))) for _ in range(k)]
        cases.append({"kind": "swaps", "lists": lists, "radix": rng.choice([2, 3, 4, 8]), "lat": rng.choice([1, 2, 3, -1, -1]), "deep": rng.choice([0, 0, 1]), "lists2": []})
        if rng.random() < 0.4:
            # two sibling groups with different numbers of lists (fewer than the radix first, more than it second, and the other way round)
            k2 = rng.randint(1, 6)
            cases.append({"kind": "swaps", "lists": lists, "radix": rng.choice([2, 3, 4, 8]), "lat": rng.choice([1, 2, 3, -1, -1]), "deep": 1,
                          "lists2": [sorted(rng.sample(range(8), rng.randint(1, 5))) for _ in range(k2)]})
    part = family.run_family(ctx, "C19", cases, "harness.exec_cost", "CostTrace.tla", "CostTrace.cfg",
                             op_of=lambda c, lg, st: c["kind"], where_of=lambda c, lg, st: where(c),
                             nontrivial=lambda c, lg: True)
    res = {"design": design, "states": r["stats"]["distinct"], "transitions": r["stats"]["generated"], "exhaustive": False,
           "rule": "intersection cases: sequences of 1-3 consecutive fiber pairs (all pairs of sub-lists of 0..3 for single fibers, random for sequences, wider random lists) run "
                   "as real a & b / leader-follower loops under an outer loop with consumable traces, fed to the three models in EVERY batching (all compositions of the "
                   "sequence length); swap cases: 2-5 coordinate lists, radix 2/3/4/8, latency 1/2/3/unbounded, two payload assignments, depth 0 and 1",
           "assumptions": ["integer radix (a radix 'N' is compared with an int by the code)"], "scope": {"cases": len(cases)}}
    return family.merge(res, part)


def where(c):
    if c["kind"] == "swaps":
        return "swaps:" + ("N" if c["lat"] == -1 else "finite")
    n = len(c["pairs"])
    empt = any((not a) or (not b) for a, b in c["pairs"])
    # the class of the known one-shot finding: a fiber pair that is not the last of the sequence in which the merge ends with one operand exhausted while the
    # other still has an element that was touched but never compared (a match that exhausts one side, or an operand that is empty from the start)
    def leftover(a, b):
        if not a and not b:
            return False
        if not a or not b:
            return True
        la, lb = max(a), max(b)
        return (la < lb and la in b) or (lb < la and lb in a)
    lo = any(leftover(a, b) for a, b in c["pairs"][:-1])
    return f"fibers{n}" + (":outer2" if c.get("outer2") else "") + (":tuples" if c.get("tuplew") else "") + (":some-empty" if empt else "") + (":leftover-head" if lo else "")


def replay(ctx, rec):
    return family.replay_family(ctx, "C19", rec, "harness.exec_cost", "CostTrace.tla", "CostTrace.cfg")
