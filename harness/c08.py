"""C08 - splitting partitions a fiber losslessly at exactly the specified boundaries"""
from . import tlc, family
from .c07 import trees
from .c05 import rand_tree


def fiber_cases(ctx):
    rng = ctx.rng
    nc = 5
    ts = trees(nc, [0, 1]) if ctx.quick else trees(6, [0, 1])
    n_per = 12 if ctx.quick else 20
    out = []
    for t in ts:
        for _ in range(n_per):
            lo = rng.randint(0, nc)
            hasact = rng.choice([0, 1])
            c = {"kind": "fiber", "tree": t, "depth": 1, "sdepth": 0, "shape": nc + 2, "hasact": hasact, "act": [lo, rng.randint(lo, nc + 2)],
                 "pre": rng.choice([0, 0, 1, 2]), "post": rng.choice([0, 0, 1, 2]), "rel": rng.choice([0, 0, 1])}
            op = rng.choice(["uniform", "nonuniform", "equal", "unequal", "truediv", "floordiv"])
            c["op"] = op
            if op in ("uniform", "equal"):
                c["step"] = rng.randint(1, 4)
            elif op == "nonuniform":
                c["splits"] = sorted(rng.sample(range(0, nc + 2), rng.randint(1, 3)))
            elif op == "unequal":
                c["sizes"] = [rng.randint(1, 3) for _ in range(rng.randint(1, 3))]
            else:
                c["n"] = rng.randint(1, 4)
                c["pre"] = c["post"] = c["rel"] = 0
            if op == "nonuniform" and rng.random() < 0.3:
                c["splits_fiber"] = 1
            out.append(c)
    # the same splits of fibers whose default is 2 (a stored 0 is content, a stored 2 an explicit default)
    ts2 = trees(nc, [0, 1, 2])
    for c in list(out):
        if rng.random() < 0.3:
            out.append(dict(c, tree=rng.choice(ts2), dflt=2))
    return out


def tensor_cases(ctx):
    rng = ctx.rng
    out = []
    n = 2500 if ctx.quick else 14000
    for _ in range(n):
        depth = rng.choice([2, 3])
        t = rand_tree(rng, 4, depth)
        sdepth = rng.randint(0, depth - 1)
        c = {"kind": "tensor", "tree": t, "depth": depth, "sdepth": sdepth, "shape": 6, "via": rng.choice(["tensor", "fiber"]),
             "pre": rng.choice([0, 0, 1]), "post": rng.choice([0, 0, 1]), "rel": rng.choice([0, 0, 1])}
        op = rng.choice(["uniform", "nonuniform", "equal", "unequal"])
        c["op"] = op
        if op in ("uniform", "equal"):
            c["step"] = rng.randint(1, 3)
        elif op == "nonuniform":
            c["splits"] = sorted(rng.sample(range(0, 5), rng.randint(1, 3)))
        else:
            c["sizes"] = [rng.randint(1, 2) for _ in range(rng.randint(1, 3))]
        if sdepth < depth - 1:
            c["pre"] = c["post"] = 0 if rng.random() < 0.5 else c["pre"]
        out.append(c)
    # nested re-splits: split, then split the lower fibers again (partitions of partitions)
    for _ in range(n // 2):
        t = rand_tree(rng, 6, 1, pabs=0.25)
        out.append({"kind": "fiber", "tree": t, "depth": 1, "sdepth": 0, "shape": 7, "op": "nested", "step": rng.randint(2, 4), "step2": rng.randint(1, 2),
                    "op1": rng.choice(["uniform", "equal"]), "op2": rng.choice(["uniform", "equal"]), "rel": 0, "pre": 0, "post": 0})
    return out


def where(c):
    halo = "halo" if (c.get("pre") or c.get("post")) else "nohalo"
    from .c09 import classify_tree
    ghost = ":ghost" if classify_tree(c["tree"]) == "ghost" else ""          # stored elements without content below the split rank: class of the known finding
    return f"{c['kind']}:{halo}:{'rel' if c.get('rel') else 'abs'}:sd{c.get('sdepth', 0)}{ghost}" + (":dflt2" if c.get("dflt") else "") + (":splits-fiber" if c.get("splits_fiber") else "")


def run(ctx):
    cfg = tlc.write_cfg("MC_Split_run.cfg", f"CONSTANTS\n NC = {4 if ctx.quick else 5}\nINIT Init\nNEXT Next\nINVARIANT DesignOK\nCHECK_DEADLOCK FALSE\n")
    r = tlc.model_check("MC_Split.tla", cfg, workers=8)
    design = [family.design_entry("MC_Split", "laws", r, "exhaustive: the declarative split lists every active element exactly once in order (halo 0) and "
                                  "equal chunks have the stated sizes, for every fiber / active range / kind / parameter of the scope", ["DesignOK"])]
    cases = fiber_cases(ctx) + tensor_cases(ctx)
    part = family.run_family(ctx, "C08", cases, "harness.exec_split", "SplitTrace.tla", "SplitTrace.cfg", exec_fn="execute_any",
                             op_of=lambda c, lg, st: c["op"], where_of=lambda c, lg, st: where(c),
                             nontrivial=lambda c, lg: bool(c["tree"]["e"]))
    res = {"design": design, "states": r["stats"]["distinct"], "transitions": r["stats"]["generated"], "exhaustive": False,
           "rule": "a case is one split call (fiber or tensor rank, kind, parameters, halos, relativeCoords, active range, shorthand, nested re-split) executed on "
                   "the implementation; every fiber over 5 coordinates with values {absent,0,1} is used with seeded parameters, plus random depth 2-3 tensors split "
                   "at every depth through both the Tensor and the Fiber entry point; non-trivial = the operand stores an element",
           "assumptions": ["elements before the first boundary of a non-uniform split lie in no partition (pinned by the repository's own tests)",
                           "an inactive element within halo distance of an active partition may or may not be copied (don't-care)",
                           "under relativeCoords the lower fibers' active range is not judged here (C14 judges coordinate-inside-active-range)"],
           "scope": {"fibers": len(fiber_cases.__code__.co_consts) and 0}}
    res["scope"] = {"cases": len(cases)}
    return family.merge(res, part)


def replay(ctx, rec):
    return family.replay_family(ctx, "C08", rec, "harness.exec_split", "SplitTrace.tla", "SplitTrace.cfg", exec_fn="execute_any")
