"""C01 - fibertrees stay well-formed under every history of public mutations"""
from . import store_family as sf


def plan(ctx):
    if ctx.quick:
        return [dict(name="c01_d1", nc=3, depth=1, vmax=1, hlen=1, ops=sf.ALL_OPS),
                dict(name="c01_d2", nc=2, depth=2, vmax=1, hlen=1, ops=sf.ALL_OPS, sample=6000),
                dict(name="c01_sim2", nc=2, depth=2, vmax=1, hlen=6, ops=sf.ALL_OPS, simulate=240),
                dict(name="c01_sim3", nc=2, depth=3, vmax=1, hlen=5, ops=sf.ALL_OPS, simulate=80)]
    return [dict(name="c01_d1", nc=4, depth=1, vmax=2, hlen=1, ops=sf.ALL_OPS, sample=60000),
            dict(name="c01_d1h2", nc=2, depth=1, vmax=1, hlen=2, ops=sf.ALL_OPS, sample=40000),
            dict(name="c01_d2", nc=2, depth=2, vmax=1, hlen=1, ops=sf.ALL_OPS),
            dict(name="c01_sim2", nc=3, depth=2, vmax=1, hlen=10, ops=sf.ALL_OPS, simulate=4000),
            dict(name="c01_sim3", nc=2, depth=3, vmax=1, hlen=8, ops=sf.ALL_OPS, simulate=2000)]


def run(ctx):
    res = sf.run_store(ctx, "C01", ["fiber", "tensor", "fiber:maxcoord"], plan(ctx), wide=1500 if ctx.quick else 20000, cache=400 if ctx.quick else 6000)
    from . import c05
    viol, n, ev, vst = c05.side_check(ctx, "C01", "P:C05:wf-throughout", "P:C01:populate-wellformed")
    res["violations"] += viol
    res["traces"] += n
    res["evaluations"] += ev
    res["states"] += vst["distinct"]
    res["transitions"] += vst["generated"]
    res["scope"]["populate_programs"] = n
    if getattr(ctx, "round", 0) == 0:
        from . import suite_family, family
        part = suite_family.run_suite(ctx, "C01")
        res["scope"]["suite"] = part["suite"]
        family.merge(res, part)
    res["assumptions"] = ["ordered/unique fibers only", "update callbacks return boxed legal payloads",
                          "raw (unowned) fibers are exercised at depth 1, deeper trees through tensors",
                          "populate loops are exercised by C05's programs (same well-formedness clauses)"]
    return res


def replay(ctx, rec):
    if "suite_event" in rec.get("behaviour", {}):
        from . import suite_family
        return suite_family.replay_suite(ctx, "C01", rec)
    if rec.get("pop"):
        from . import c05
        return c05.replay(ctx, rec)
    return sf.replay_store(ctx, rec, "C01")
