"""Executor for cost-model cases (C19): real a & b loops under an outer loop with consumable intersect traces, fed to the three
intersector models in every batching; Compute.numSwaps on tensors built from coordinate lists."""
import sys

sys.path.insert(0, __import__("os").environ.get("VERIF_REPO", "/repo"))
from fibertree import Fiber, Tensor  # noqa: E402
from fibertree.core.metrics import Metrics  # noqa: E402
from fibertree.model.intersect import TwoFingerIntersector, SkipAheadIntersector, LeaderFollowerIntersector  # noqa: E402
from fibertree.model.compute import Compute  # noqa: E402


def mkfiber(coords, rid, vals=None):
    f = Fiber(list(coords), [(vals[i] if vals else 1 + (c % 3)) for i, c in enumerate(coords)])
    f.getRankAttrs().setId(rid)
    return f


def run_intersect(pairs, batching, model, outer2=0, tuplew=0):
    """batching: list of batch sizes summing to len(pairs).  outer2: two loop ranks above the intersected one (I over the pairs, J with the single coordinate 0, so that
    consecutive K fibers share their J coordinate); tuplew: the K coordinates are the tuples (c // w, c % w), flattened for the traces through Metrics.associateShape"""
    n = len(pairs)
    c_j = mkfiber(range(n), "I" if outer2 else "J")
    isect = {"tf": TwoFingerIntersector, "skip": SkipAheadIntersector}[model]()
    tup = (lambda cs: [(c // tuplew, c % tuplew) for c in cs]) if tuplew else (lambda cs: cs)
    fibers = [(mkfiber(tup(a), "K", vals=[1] * len(a)), mkfiber(tup(b), "K", vals=[1] * len(b))) for a, b in pairs]
    Metrics.beginCollect()
    try:
        if tuplew:
            top = max([c for a, b in pairs for c in a + b] + [0])
            Metrics.associateShape("K", (top // tuplew + 1, tuplew))
        Metrics.trace("K", "intersect_0", consumable=True)
        Metrics.trace("K", "intersect_1", consumable=True)
        bounds = []
        acc = 0
        for s in batching:
            acc += s
            bounds.append(acc)
        done = 0
        if 0 in bounds:
            # an empty leading batch: the traces are handed over once before the first fiber has been intersected
            isect.addTraces(Metrics.consumeTrace("K", "intersect_0"), Metrics.consumeTrace("K", "intersect_1"))
        for j, _ in c_j:
            a_k, b_k = fibers[j]
            for _ in (mkfiber([0], "J") if outer2 else [(0, 1)]):
                for _ in a_k & b_k:
                    pass
            done += 1
            if done in bounds:
                isect.addTraces(Metrics.consumeTrace("K", "intersect_0"), Metrics.consumeTrace("K", "intersect_1"))
        Metrics.consumeTrace("K", "intersect_0")
        Metrics.consumeTrace("K", "intersect_1")
    finally:
        Metrics.endCollect()
    return int(isect.getNumIntersects())


def run_lf(pairs, batching):
    n = len(pairs)
    c_j = mkfiber(range(n), "J")
    isect = LeaderFollowerIntersector()
    fibers = [(mkfiber(a, "K"), mkfiber(b, "K")) for a, b in pairs]
    Metrics.beginCollect()
    try:
        Metrics.trace("K", "intersect_0", consumable=True)
        bounds, acc = [], 0
        for s in batching:
            acc += s
            bounds.append(acc)
        done = 0
        if 0 in bounds:
            isect.addTraces(Metrics.consumeTrace("K", "intersect_0"))
        for j, _ in c_j:
            a_k, b_k = fibers[j]
            for _ in Fiber.intersection(a_k, b_k, style="leader-follower"):
                pass
            done += 1
            if done in bounds:
                isect.addTraces(Metrics.consumeTrace("K", "intersect_0"))
        Metrics.consumeTrace("K", "intersect_0")
    finally:
        Metrics.endCollect()
    return int(isect.getNumIntersects())


def run_operand(pairs, which):
    """only ONE operand's trace of the two-finger intersections is collected (intersect_<which>) and handed, fiber by fiber, to a leader-follower model:
    the number of elements that operand presented"""
    isect = LeaderFollowerIntersector()
    fibers = [(mkfiber(a, "K"), mkfiber(b, "K")) for a, b in pairs]
    typ = f"intersect_{which}"
    Metrics.beginCollect()
    try:
        Metrics.trace("K", typ, consumable=True)
        for j, _ in mkfiber(range(len(pairs)), "J"):
            a_k, b_k = fibers[j]
            for _ in a_k & b_k:
                pass
            isect.addTraces(Metrics.consumeTrace("K", typ))
        Metrics.consumeTrace("K", typ)
    finally:
        Metrics.endCollect()
    return int(isect.getNumIntersects())


def execute(case):
    out = {k: v for k, v in case.items()}
    out["exc"] = "ok"
    out["oponly"] = [-9, -9]
    try:
        if case["kind"] == "intersect":
            res = []
            for b in case["batchings"]:
                r = {"batching": b}
                for model in ("tf", "skip"):
                    try:
                        r[model] = run_intersect(case["pairs"], b, model, case.get("outer2", 0), 0)
                        r[model + "_exc"] = "ok"
                        for w in case.get("tuplew", []):
                            # the same lists as tuple coordinates of two different widths, one session after the other: the totals do not depend on the encoding
                            if run_intersect(case["pairs"], b, model, case.get("outer2", 0), w) != r[model]:
                                r[model] = -2
                    except BaseException as ex:  # noqa: B036
                        r[model] = -1
                        r[model + "_exc"] = "err:" + type(ex).__name__
                        if Metrics.isCollecting():
                            Metrics.collecting = False
                try:
                    r["lf"] = run_lf(case["pairs"], b)
                    r["lf_exc"] = "ok"
                except BaseException as ex:  # noqa: B036
                    r["lf"] = -1
                    r["lf_exc"] = "err:" + type(ex).__name__
                    if Metrics.isCollecting():
                        Metrics.collecting = False
                res.append(r)
            out["res"] = res
            if case.get("oponly"):
                for q in (0, 1):
                    try:
                        out["oponly"][q] = run_operand(case["pairs"], q)
                    except BaseException:  # noqa: B036
                        out["oponly"][q] = -1
                        if Metrics.isCollecting():
                            Metrics.collecting = False
        else:
            lists = case["lists"]
            outs = []
            for vals in (1, 7):
                lower = [Fiber(list(l), [vals + i for i in range(len(l))]) for l in lists]
                root = Fiber(list(range(len(lower))), lower)
                if case.get("lists2"):
                    # two sibling groups one level up (the first one first): each is merged on its own, with the radix given
                    lower2 = [Fiber(list(l), [vals + i for i in range(len(l))]) for l in case["lists2"]]
                    root = Fiber([0, 3], [root, Fiber(list(range(len(lower2))), lower2)])
                    t = Tensor.fromFiber(rank_ids=["P", "M", "K"], fiber=root)
                    d = 1
                elif case.get("deep"):
                    root = Fiber([0, 3], [root, Fiber([0], [Fiber([1], [vals])])])
                    t = Tensor.fromFiber(rank_ids=["P", "M", "K"], fiber=root)
                    d = 1
                else:
                    t = Tensor.fromFiber(rank_ids=["M", "K"], fiber=root)
                    d = 0
                lat = "N" if case["lat"] == -1 else case["lat"]
                outs.append(int(Compute.numSwaps(t, d, case["radix"], lat)))
            out["swaps"] = outs
    except BaseException as ex:  # noqa: B036
        out["exc"] = "err:" + type(ex).__name__ + ":" + str(ex)[:80]
    return out
