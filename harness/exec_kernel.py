"""Executor for kernel cases (C06): runs one kernel, logs operands as used, the output and the operands afterwards."""
import sys

sys.path.insert(0, __import__("os").environ.get("VERIF_REPO", "/repo"))
from . import proj, kernel  # noqa: E402


def content_of(t):
    """operand content in its own rank order as [[point, value]...] (read from the projection; the validator re-derives it from the tree)"""
    return proj.proj_tensor(t)


def execute(case):
    out = {"tid": case["tid"], "expr0": case["expr"], "order": case["order"], "style": case.get("style", "tf"), "exc": "ok",
           "tile": case.get("tile") or {"v": "", "s": 1}, "nc": max(case["extents"].values()), "ops0": {k: v for k, v in case["ops"].items()}}
    try:
        used, expr1, z = kernel.prepare(case)
        out["expr1"] = expr1
        out["ops1"] = {t: proj.strip(proj.proj_tensor(u)["root"]) for t, u in used.items()}
        pre = {t: proj.proj_tensor(u) for t, u in used.items()}
        bodies = kernel.run_nest(case, used, expr1, z)
        out["bodies"] = bodies
        out["z"] = kernel.z_projection(z)
        out["ops_unchanged"] = 1 if pre == {t: proj.proj_tensor(u) for t, u in used.items()} else 0
    except BaseException as ex:  # noqa: B036
        out["exc"] = "err:" + type(ex).__name__ + ":" + str(ex)[:100]
    return out
