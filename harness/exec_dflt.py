"""Executor for C03 over tensors whose leaf default is any scalar (0, a non-zero int, a float): short histories of reference writes, reads with and without
allocation, and reads of points nobody wrote.  Values are multiples of 1/2; they are logged doubled (v2 = 2*v) so that the validator works on integers."""
import sys

sys.path.insert(0, __import__("os").environ.get("VERIF_REPO", "/repo"))
from fibertree import Fiber, Payload, Tensor  # noqa: E402


def v2(x):
    x = Payload.get(x)
    if isinstance(x, (int, float)) and not isinstance(x, bool) and float(2 * x).is_integer():
        return int(2 * x)
    return -99999


def content(t, depth):
    """all stored leaf points: [[pt, v2]]"""
    out = []

    def rec(f, pt, d):
        for c, p in zip(f.coords, f.payloads):
            if isinstance(p, Fiber):
                rec(p, pt + [c], d + 1)
            else:
                out.append([pt + [c], v2(p)])
    rec(t.getRoot(), [], 0)
    return out


def execute(case):
    depth, d = case["depth"], case["dflt2"] / 2
    if float(d).is_integer() and not case.get("asfloat"):
        d = int(d)
    out = {"tid": case["tid"], "depth": depth, "dflt2": case["dflt2"], "steps": [], "exc": "ok"}
    try:
        t = Tensor(rank_ids=["K", "M", "N"][:depth], shape=[4] * depth, default=d)
    except BaseException as ex:  # noqa: B036
        out["exc"] = "err:" + type(ex).__name__
        return out
    refs = {}
    for n, s in enumerate(case["steps"], 1):
        ev = {"op": s["op"], "pt": s["pt"], "kind": s.get("kind", ""), "w2": s.get("w2", 0), "h": s.get("h", 0), "exc": "ok", "res2": 0}
        try:
            if s["op"] == "get":
                ev["res2"] = v2(t.getPayload(*s["pt"]))
            elif s["op"] == "getdflt":
                ev["res2"] = v2(t.getPayload(*s["pt"], allocate=False, default=case["dflt2"] / 2 + 3))
            elif s["op"] == "ref":
                refs[n] = t.getPayloadRef(*s["pt"])
                ev["res2"] = v2(refs[n])
            else:     # write through a fresh reference, or through the handle obtained at step h
                r = refs[s["h"]] if s["op"] == "hwrite" else t.getPayloadRef(*s["pt"])
                w = s["w2"] / 2
                if float(w).is_integer() and not s.get("wfloat"):
                    w = int(w)
                if s["kind"] == "assign":
                    r <<= w
                elif s["kind"] == "add":
                    r += w
                else:
                    r *= w
        except BaseException as ex:  # noqa: B036
            ev["exc"] = "err:" + type(ex).__name__
        try:
            ev["content"] = content(t, depth)
            dl = t.getDefault() if hasattr(t, "getDefault") else None
            ev["tdflt2"] = v2(dl)
        except BaseException as ex:  # noqa: B036
            ev["content"] = []
            ev["tdflt2"] = -99999
            ev["exc"] = "err:" + type(ex).__name__
        out["steps"].append(ev)
    return out
