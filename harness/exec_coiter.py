"""Executor for co-iteration cases (C04).  Builds the operands in the requested embedding, runs the real operator,
logs operands before/after (with identities), what was yielded, and the effect of a write through a delivered payload."""
import sys

sys.path.insert(0, __import__("os").environ.get("VERIF_REPO", "/repo"))
from fibertree import Fiber, Payload, Tensor  # noqa: E402
from . import proj  # noqa: E402

NCMAX = 6


def deepen(tree):
    """1-level tree -> 2-level: value v becomes a sub-fiber; 0 -> an empty / explicit-default-only sub-fiber (counts as absent)"""
    e = []
    for c, p in tree["e"]:
        v = p["v"]
        if v == 0:
            sub = {"k": "F", "e": []} if c % 2 == 0 else {"k": "F", "e": [[1, {"k": "L", "v": 0}]]}
        else:
            sub = {"k": "F", "e": [[j, {"k": "L", "v": (j + v) % 3}] for j in range(v)] + [[v, {"k": "L", "v": v}]]}
        e.append([c, sub])
    return {"k": "F", "e": e}


def build_operand(tree, emb, fmt, oids, name, dflt=0):
    """-> (fiber to iterate, projector)"""
    if emb == "tensor2":
        t = proj.build_tensor(deepen(tree), ["K", "M"], name=name)
        if fmt == "U":
            t.setFormat("K", "U")
        return t.getRoot(), (lambda: proj.proj_tensor(t, oids))
    if emb == "tensor1":
        t = proj.build_tensor(tree, ["K"], shape=[NCMAX], name=name, default=dflt)
        if fmt == "U":
            t.setFormat("K", "U")
        return t.getRoot(), (lambda: proj.proj_tensor(t, oids))
    f = proj.build_fiber(tree, default=dflt, shape=[NCMAX])
    if fmt == "U":
        f.getRankAttrs().setFormat("U")
    return f, (lambda: {"rank0": 0, "root": proj.proj_fiber(f, None, oids), "ranks": []})


def pp(p, oids):
    return proj.proj_payload(p, None, oids)


def execute(case):
    oids = proj.Oids()
    kind, op, emb = case["kind"], case["op"], case["emb"]
    fmts = case.get("fmt") or ["C"] * len(case["ops"])
    dflts = case.get("dflts") or [case.get("dflt", 0)] * len(case["ops"])
    out = {"tid": case["tid"], "kind": kind, "op": op, "emb": emb, "dflt": case.get("dflt", 0), "dflts": dflts, "fmt": fmts, "exc": "ok", "ys": [],
           "wt": {"done": 0, "k": 1, "pt": [], "v": 0, "after": {"root": {"k": "F", "e": []}}}}
    try:
        if kind == "prefix":
            return exec_prefix(case, out, oids)
        built = [build_operand(t, emb, fmts[k], oids, "T%d" % k, dflts[k]) for k, t in enumerate(case["ops"])]
        fibers = [b[0] for b in built]
        out["act"] = [[int(x) for x in f.getActive()] for f in fibers]
        out["pre"] = [b[1]() for b in built]
        if kind == "pair":
            a, b = fibers
            if case.get("lazyb"):
                b = b & b            # the right operand is itself the (lazy) result of a co-iteration with b's present coordinates
            res = {"and": lambda: a & b, "or": lambda: a | b, "xor": lambda: a ^ b, "sub": lambda: a - b}[op]()
            got = []
            for c, ps in res:
                if op == "and":
                    got.append((c, "", list(ps)))
                elif op == "sub":
                    got.append((c, "", [ps]))
                else:
                    m, pa, pb = ps
                    got.append((c, Payload.get(m), [pa, pb]))
        elif op == "intersection":
            got = [(c, "", list(ps)) for c, ps in Fiber.intersection(*fibers)]
        elif op == "lf":
            got = [(c, "", list(ps)) for c, ps in Fiber.intersection(*fibers, style="leader-follower")]
        elif op == "union":
            got = []
            for c, ps in Fiber.union(*fibers):
                ps = list(ps)
                got.append((c, Payload.get(ps[0]), ps[1:]))
        else:
            raise ValueError(op)
        out["ys"] = [{"c": c, "m": m, "ps": [pp(p, oids) for p in ps]} for c, m, ps in got]
        out["post"] = [b[1]() for b in built]
        # write through the first delivered leaf payload that belongs to an operand
        if kind == "pair" and emb != "tensor2":
            for c, m, ps in got:
                done = False
                for k, p in enumerate(ps):
                    if isinstance(p, Payload) and any(p is q for q in fibers[k].payloads):
                        p += 5
                        out["wt"] = {"done": 1, "k": k + 1, "pt": [c], "v": Payload.get(p), "after": built[k][1]()}
                        done = True
                        break
                if done:
                    break
    except BaseException as ex:  # noqa: B036
        out["exc"] = "err:" + type(ex).__name__ + ":" + str(ex)[:80]
        out.setdefault("pre", [{"root": {"k": "F", "e": [], "id": 0}} for _ in case["ops"]])
        out.setdefault("post", out["pre"])
        out.setdefault("act", [[0, 0] for _ in case["ops"]])
    return out


def exec_prefix(case, out, oids):
    """ops: two element lists with sequence coordinates of different arity (given as lists of ints)"""
    fibers = []
    for t in case["ops"]:
        coords = [tuple(c) if len(c) > 1 else c[0] for c, _ in t["e"]]
        fibers.append(Fiber(coords, [p["v"] for _, p in t["e"]]))
    lens = [len(t["e"][0][0]) if t["e"] else 1 for t in case["ops"]]
    out["lens"] = lens
    out["short"] = 1 if lens[0] <= lens[1] else 2
    out["long"] = 2 if lens[0] <= lens[1] else 1
    pj = lambda f: {"rank0": 0, "root": proj.proj_fiber(f, None, oids, mode="seq"), "ranks": []}   # noqa: E731
    out["pre"] = [pj(f) for f in fibers]
    out["act"] = [[0, 0], [0, 0]]
    got = [(c, list(ps)) for c, ps in fibers[0] & fibers[1]]
    out["ys"] = [{"c": [c] if isinstance(c, int) else list(c), "m": "", "ps": [pp(p, oids) for p in ps]} for c, ps in got]
    out["post"] = [pj(f) for f in fibers]
    return out
