"""Running TLC: design-level model checking, behaviour generation, batch trace validation."""
import concurrent.futures as cf
import json
import os
import re
import shutil
import subprocess
import time

ROOT = os.path.dirname(os.path.dirname(os.path.abspath(__file__)))
SPEC = os.path.join(ROOT, "spec")
WORK = os.path.join(ROOT, ".work")
JAR = "/opt/veriftools/tla/tla2tools.jar:/opt/veriftools/tla/CommunityModules-deps.jar"


class TLCError(Exception):
    pass


def workdir(name):
    d = os.path.join(WORK, f"{name}.{os.getpid()}")          # per process: two checks may run at the same time
    shutil.rmtree(d, ignore_errors=True)
    os.makedirs(d, exist_ok=True)
    return d


def _run(module, cfg, metadir, env=None, workers=1, extra=(), timeout=3600, heap="4g"):
    e = dict(os.environ)
    if env:
        e.update({k: str(v) for k, v in env.items()})
    # the JVM's temporary directory is the run's own metadir (removed afterwards): TLC leaves an empty tlc-<n> directory per run behind in java.io.tmpdir
    os.makedirs(metadir, exist_ok=True)
    cmd = ["java", "-Djava.io.tmpdir=" + metadir, "-XX:+UseParallelGC", "-XX:ParallelGCThreads=" + ("2" if workers == 1 else "8"), "-Xmx" + heap, "-Xss256m", "-cp", JAR, "tlc2.TLC",
           "-workers", str(workers), "-metadir", metadir, "-noGenerateSpecTE",
           "-config", cfg if os.path.isabs(cfg) else os.path.join(SPEC, cfg)] + list(extra) + [os.path.join(SPEC, module)]
    t0 = time.time()
    try:
        p = subprocess.run(cmd, cwd=SPEC, env=e, stdout=subprocess.PIPE, stderr=subprocess.STDOUT,
                           text=True, timeout=timeout)
    except subprocess.TimeoutExpired as ex:
        raise TLCError(f"TLC timeout after {timeout}s on {module}/{cfg}: {str(ex.stdout)[-2000:]}")
    finally:
        shutil.rmtree(metadir, ignore_errors=True)
    return p.returncode, p.stdout, time.time() - t0


_STATES = re.compile(r"(\d+) states generated, (\d+) distinct states found, (\d+) states left on queue")
_DEPTH = re.compile(r"The depth of the complete state graph search is (\d+)")


def parse_stats(out):
    st = {"generated": 0, "distinct": 0, "depth": 0}
    m = None
    for m in _STATES.finditer(out):
        pass
    if m:
        st["generated"] = int(m.group(1))
        st["distinct"] = int(m.group(2))
    m2 = re.search(r"The number of states generated: (\d+)", out)
    if m2 and not st["generated"]:
        st["generated"] = int(m2.group(1))
        st["distinct"] = int(m2.group(1))
    m = _DEPTH.search(out)
    if m:
        st["depth"] = int(m.group(1))
    return st


def parse_prints(out):
    """lines printed with PrintT(ToJson(x)) -> list of python values"""
    res = []
    for line in out.splitlines():
        line = line.strip()
        if line.startswith('"{') or line.startswith('"['):
            try:
                res.append(json.loads(json.loads(line)))
            except Exception:
                raise TLCError("unparsable PrintT line: " + line[:300])
    return res


def parse_coverage(out):
    """-coverage 1 output: action name -> (distinct, total)"""
    cov = {}
    for m in re.finditer(r"<(\w+) line \d+, col \d+ to line \d+, col \d+ of module (\w+)>: (\d+):(\d+)", out):
        cov[m.group(1)] = (int(m.group(3)), int(m.group(4)))
    return cov


def model_check(module, cfg, name=None, env=None, workers=16, timeout=3600, coverage=False, extra=(), heap="8g"):
    """design-level run: returns dict(ok, stats, out, wall, prints, coverage).  ok=False on invariant violation."""
    name = name or (module + "_" + os.path.basename(cfg)).replace(".", "_")
    md = workdir("mc_" + name)
    ex = list(extra)
    if coverage:
        ex += ["-coverage", "1"]
    rc, out, wall = _run(module, cfg, md, env, workers, ex, timeout, heap if workers > 1 else "2g")
    ok = "Model checking completed. No error has been found." in out or "Finished computing initial states" in out and rc == 0
    if rc != 0 and "is violated" not in out and "Error:" in out and "Invariant" not in out and "property" not in out.lower():
        raise TLCError(f"TLC failed on {module}/{cfg} (rc={rc}):\n" + out[-3000:])
    return {"ok": rc == 0 and ok, "rc": rc, "stats": parse_stats(out), "out": out, "wall": wall,
            "prints": parse_prints(out), "coverage": parse_coverage(out) if coverage else {}}


def _validate_shard(args):
    module, cfg, path, idx, env, timeout = args
    md = os.path.join(os.path.dirname(path), f"meta{idx}")
    e = dict(env or {})
    e["TRACE_FILE"] = path
    rc, out, wall = _run(module, cfg, md, e, 1, (), timeout, "3g")
    if rc != 0 or "Model checking completed. No error has been found." not in out:
        return {"error": out[-4000:], "idx": idx}
    return {"prints": parse_prints(out), "stats": parse_stats(out), "idx": idx, "wall": wall}


CORRUPT_KEYS = {"v", "res", "pos", "size", "read", "write", "mul", "add", "upd", "numiters", "count_a", "val", "val_back", "tf", "skip", "lf", "resid", "eq", "unsplit",
                "digest2", "dflt1", "mutable1", "files_same", "ops_unchanged"}
CORRUPT_LISTS = {"rootp", "swaps", "bodies", "iteract", "shape", "act", "zact"}


def corrupt(rec, seed):
    """self-test: change ONE value the implementation produced in a deep copy of the record (deterministic in seed).  Returns (record, path) or (record, None)"""
    import copy
    import random
    rng = random.Random(seed)
    r = copy.deepcopy(rec)
    spots = []

    def walk(x, path, key):
        if isinstance(x, dict):
            for k, v in x.items():
                if k in ("tid", "init", "act", "kernel", "ops", "ops0", "ops1", "tree", "a", "z0", "script", "case"):
                    continue
                walk(v, path + [k], k)
        elif isinstance(x, list):
            for n, v in enumerate(x):
                walk(v, path + [n], key)
        elif isinstance(x, bool):
            if key in CORRUPT_KEYS or (isinstance(key, str) and key.startswith("eq_")):
                spots.append(path)
        elif isinstance(x, int):
            if key in CORRUPT_KEYS or key in CORRUPT_LISTS:
                spots.append(path)
    walk(r, [], None)
    if not spots:
        return r, None
    path = rng.choice(spots)
    x = r
    for k in path[:-1]:
        x = x[k]
    old = x[path[-1]]
    x[path[-1]] = (not old) if isinstance(old, bool) else old + 1 + rng.randint(0, 2)
    return r, path


def validate(module, cfg, behaviours, name, shards=16, env=None, timeout=3600):
    if os.environ.get("VERIF_CORRUPT"):
        out = []
        global LAST_CORRUPTED
        LAST_CORRUPTED = {}
        for b in behaviours:
            c, path = corrupt(b, b.get("tid", 0) * 7919 + int(os.environ.get("VERIF_CORRUPT_SEED", "1")))
            out.append(c)
            LAST_CORRUPTED[b["tid"]] = path
        behaviours = out
    return _validate(module, cfg, behaviours, name, shards, env, timeout)


LAST_CORRUPTED = {}


def _validate(module, cfg, behaviours, name, shards=16, env=None, timeout=3600):
    """behaviours: list of dict, each gets a 'tid' (1-based, global).  Every behaviour must come back with exactly
    one verdict record {"tid":..,"fails":[[step, clause],..], ...}.  Returns (verdicts by tid, stats)."""
    d = workdir("val_" + name)
    n = len(behaviours)
    if n == 0:
        return {}, {"generated": 0, "distinct": 0}
    shards = max(1, min(shards, n))
    files = []
    per = (n + shards - 1) // shards
    for s in range(shards):
        chunk = behaviours[s * per:(s + 1) * per]
        if not chunk:
            continue
        path = os.path.join(d, f"shard{s}.ndjson")
        with open(path, "w") as fh:
            for b in chunk:
                fh.write(json.dumps(b, separators=(",", ":")) + "\n")
        files.append((module, cfg, path, s, env, timeout))
    verdicts = {}
    stats = {"generated": 0, "distinct": 0}
    with cf.ThreadPoolExecutor(max_workers=16) as ex:
        for r in ex.map(_validate_shard, files):
            if "error" in r:
                raise TLCError(f"validator {module}/{cfg} crashed on shard {r['idx']}:\n{r['error']}")
            for v in r["prints"]:
                if isinstance(v, dict) and "tid" in v:
                    verdicts[v["tid"]] = v
            stats["generated"] += r["stats"]["generated"]
            stats["distinct"] += r["stats"]["distinct"]
    missing = [b["tid"] for b in behaviours if b["tid"] not in verdicts]
    if missing:
        raise TLCError(f"validator {module}/{cfg}: no verdict for tids {missing[:10]} ({len(missing)} missing)")
    shutil.rmtree(d, ignore_errors=True)
    return verdicts, stats


def sany(module):
    cmd = ["java", "-cp", JAR, "tla2sany.SANY", os.path.join(SPEC, module)]
    p = subprocess.run(cmd, cwd=SPEC, stdout=subprocess.PIPE, stderr=subprocess.STDOUT, text=True)
    ok = p.returncode == 0 and "Semantic errors" not in p.stdout and "*** Errors" not in p.stdout and "Fatal errors" not in p.stdout
    return ok, p.stdout


def write_cfg(name, text):
    d = os.path.join(WORK, "cfg")
    os.makedirs(d, exist_ok=True)
    path = os.path.join(d, f"{os.getpid()}.{name}")
    with open(path, "w") as fh:
        fh.write(text)
    return path


def search(module, cfg, records, name, shards=16, timeout=3600):
    """run a searching validator (several printed records per tid); returns all printed records and summed stats"""
    d = workdir("srch_" + name)
    n = len(records)
    if n == 0:
        return [], {"generated": 0, "distinct": 0}
    shards = max(1, min(shards, n))
    per = (n + shards - 1) // shards
    jobs = []
    for s_ in range(shards):
        chunk = records[s_ * per:(s_ + 1) * per]
        if not chunk:
            continue
        path = os.path.join(d, f"shard{s_}.ndjson")
        with open(path, "w") as fh:
            for b in chunk:
                fh.write(json.dumps(b, separators=(",", ":")) + "\n")
        jobs.append((module, cfg, path, s_, None, timeout))
    prints = []
    stats = {"generated": 0, "distinct": 0}
    with cf.ThreadPoolExecutor(max_workers=16) as ex:
        for r in ex.map(_validate_shard, jobs):
            if "error" in r:
                raise TLCError(f"search validator {module}/{cfg} crashed on shard {r['idx']}:\n{r['error']}")
            prints += r["prints"]
            stats["generated"] += r["stats"]["generated"]
            stats["distinct"] += r["stats"]["distinct"]
    shutil.rmtree(d, ignore_errors=True)
    return prints, stats
