"""C10 - value-returning operations never disturb or alias their operands"""
from . import tlc, family
from .c05 import rand_tree
from .c09 import classify_tree, small_trees

VALUE_OPS = ["splitUniform", "splitNonUniform", "splitEqual", "splitUnEqual", "fiberSplitUniform", "truediv", "floordiv", "swizzle", "swap", "flatten", "fiberFlatten",
             "merge", "updateCoords", "updatePayloads", "add", "mul", "addscalar", "mulscalar", "copy", "deepcopy", "fiberDeepcopy", "fromFiberOwned", "swizzlePartial", "unflatten", "fiberUnflatten", "rawDeepcopy", "rawCopy", "prune", "project", "getRange"]
OBSERVERS = ["getPayload", "iterate", "coiterate", "compare", "queries", "print", "dump", "uncompress", "footprint", "renderTree", "renderUncompressed", "renderTensor", "renderTreeHL", "renderUncompressedHL", "renderTensorHL"]


# read-only operations that accept an operand with tuple coordinates as it is (the others take integer coordinates / ranges from the caller)
def content_leafless(t, depth, d):
    """does flattening ranks d, d+1 of tree t leave an empty fiber somewhere the unflatten would start from?  (every fiber at depth d has only empty sub-fibers,
    or none at all)"""
    def at(p, lv):
        if lv == 0:
            return [p]
        return [x for _, q in p["e"] for x in at(q, lv - 1)]
    fs = at(t, d)
    return (not fs) or any(all(not q["e"] for _, q in f["e"]) for f in fs)


FLAT_OBSERVERS = ["compare", "print", "dump", "renderTree", "renderUncompressed", "renderTensor"]


def run(ctx):
    rng = ctx.rng
    cfg = tlc.write_cfg("MC_Alias_run.cfg", "CONSTANTS\n Cells = {1,2,3%s}\n Vals = {0,1}\nINIT Init\nNEXT Next\nINVARIANT NonInterference\nINVARIANT SharedIsVisible\nCHECK_DEADLOCK FALSE\n"
                        % ("" if ctx.quick else ",4"))
    r = tlc.model_check("MC_Alias.tla", cfg, workers=8)
    design = [family.design_entry("MC_Alias", "heap model", r, "exhaustive: for every heap, pair of objects and mutation history, disjoint identity sets => neither side "
                                  "sees the other's mutations; a shared part is visible to some one-step mutation", ["NonInterference", "SharedIsVisible"])]
    cases = []
    n = 120 if ctx.quick else 1500
    trees = []
    for _ in range(n):
        depth = rng.choice([1, 2, 2, 3, 4])
        trees.append((depth, rand_tree(rng, 4 if depth < 4 else 2, depth, pz=0.0, pabs=0.3) if rng.random() < 0.7 else rand_tree(rng, 4 if depth < 4 else 2, depth)))
    for depth, t in trees:
        t2 = rand_tree(rng, 4, depth, pz=0.1, pabs=0.4)
        for op in VALUE_OPS:
            need2 = op in ("swap", "flatten", "fiberFlatten", "merge", "swizzle", "swizzlePartial", "unflatten", "fiberUnflatten")
            if need2 and depth < 2:
                continue
            if op in ("add", "mul", "addscalar", "mulscalar", "truediv", "floordiv") and depth != 1:
                continue
            d = rng.randint(0, depth - 2) if need2 else rng.randint(0, depth - 1)
            if op == "fiberUnflatten":
                d = 0           # Fiber.unflattenRanks works on the top rank only
            if op in ("unflatten", "fiberUnflatten") and content_leafless(t, depth, d):
                continue        # nothing to flatten below rank d: the flattened fiber is empty and has no tuple coordinates to unflatten (precondition of the call)
            if classify_tree(t) == "ghost" and (need2 or op.startswith("split") or op == "fiberSplitUniform"):
                continue          # *Below transforms on 'ghost' sub-fibers: C09 / C08 known findings, not an aliasing question
            cases.append({"kind": "value", "op": op, "tree": t, "tree2": t2, "depth": depth, "d": d, "step": rng.randint(1, 3), "style": rng.choice(["tuple", "pair"]),
                          "fdflt": rng.choice([0, 0, 0.5]) if op not in ("add", "mul", "addscalar", "mulscalar", "truediv", "floordiv") else 0})
        obs = OBSERVERS if not ctx.quick else rng.sample(OBSERVERS[:9], 5) + rng.sample(OBSERVERS[9:], 2)
        for op in obs:
            cases.append({"kind": "observer", "op": op, "tree": t, "tree2": t2, "depth": depth})
            if op in ("compare", "coiterate", "iterate", "queries", "print", "dump", "footprint") and rng.random() < 0.5:
                cases.append({"kind": "observer", "op": op, "tree": t, "tree2": t2, "depth": depth, "ufmt": rng.randint(0, 3)})
            if depth >= 2 and t["e"] and op in FLAT_OBSERVERS and classify_tree(t) != "ghost" and rng.random() < 0.5:
                cases.append({"kind": "observer", "op": op, "tree": t, "tree2": t2, "depth": depth, "flat": rng.choice(["tuple", "pair"])})
    # copies of raw fibers that hold nothing (depth 1 and 2)
    for op in ("rawDeepcopy", "rawCopy"):
        for depth in (1, 2):
            cases.append({"kind": "value", "op": op, "tree": {"k": "F", "e": []}, "tree2": {"k": "F", "e": []}, "depth": depth, "d": 0, "step": 1, "style": "tuple", "fdflt": 0})
            cases.append({"kind": "value", "op": op, "tree": {"k": "F", "e": []}, "tree2": {"k": "F", "e": []}, "depth": depth, "d": 0, "step": 1, "style": "tuple", "fdflt": 0.5})
    part = family.run_family(ctx, "C10", cases, "harness.exec_alias", "AliasTrace.tla", "AliasTrace.cfg",
                             op_of=lambda c, lg, st: c["op"], where_of=lambda c, lg, st: c["kind"] + ":" + classify_tree(c["tree"]) + f":depth{c['depth']}",
                             nontrivial=lambda c, lg: bool(c["tree"]["e"]))
    res = {"design": design, "states": r["stats"]["distinct"], "transitions": r["stats"]["generated"], "exhaustive": False,
           "rule": "a case is one value-returning operation (operand projected with identities before/after, identity sets of fibers / boxes / ranks / attribute records of "
                   "operand and result, then a burst of mutations on the result and, on a fresh pair, on the operand) or one read-only observer (projection with "
                   "identities and rank lists before/after, images rendered twice); seeded random depth 1-3 tensors, canonical and irregular",
           "assumptions": ["what the pixels mean is not judged (an image is an opaque value)"], "scope": {"cases": len(cases), "value_ops": VALUE_OPS, "observers": OBSERVERS}}
    res = family.merge(res, part)
    if getattr(ctx, "round", 0) == 0:
        from . import suite_family
        part2 = suite_family.run_suite(ctx, "C10")
        res["scope"]["suite"] = part2["suite"]
        family.merge(res, part2)
    return res


def replay(ctx, rec):
    if "suite_event" in rec.get("behaviour", {}):
        from . import suite_family
        return suite_family.replay_suite(ctx, "C10", rec)
    return family.replay_family(ctx, "C10", rec, "harness.exec_alias", "AliasTrace.tla", "AliasTrace.cfg")
