"""parse every TLA+ module with SANY (used by bin/setup)"""
import glob, os, sys
sys.path.insert(0, os.path.dirname(os.path.dirname(os.path.abspath(__file__))))
from harness import tlc
import concurrent.futures as cf
mods = sorted(glob.glob(os.path.join(tlc.SPEC, "*.tla")))
bad = 0
with cf.ThreadPoolExecutor(8) as ex:
    for m, (ok, out) in zip(mods, ex.map(lambda m: tlc.sany(os.path.basename(m)), mods)):
        if not ok:
            bad += 1
            print("SANY FAILED", m); print(out[-1500:])
print(f"sany: {len(mods)} modules, {bad} failed")
sys.exit(1 if bad else 0)
