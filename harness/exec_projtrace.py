"""Executor for project_i traces (C16): a one- or two-level loop nest whose inner loop walks a coordinate projection of a stored fiber,

    for s, f_val in f_s:                                   (optional outer loop, rank S)
        for q, i_val in i_w.project(trans_fn=lambda w: a*w + b + cs*s, interval=..., rank_id="Q"[, start_pos=..]):      mode "dst"
        for q, i_val in i_w.project(..., rank_id="Q", tick=True).iterOccupancy(tick=False):                            mode "src"

run under Metrics collection with every (rank, type) registered, three times (default flush threshold, threshold 2, consumable traces).
Logs the yields and every CSV file / consumed trace.  No expected values."""
import os
import sys

sys.path.insert(0, __import__("os").environ.get("VERIF_REPO", "/repo"))
from fibertree import Fiber  # noqa: E402
from fibertree.core.metrics import Metrics  # noqa: E402
from .exec_metrics import read_rows  # noqa: E402

ROOT = os.path.dirname(os.path.dirname(os.path.abspath(__file__)))
TYPES = ["iter", "project_0", "project_1"]


def mk(tree, rank, dflt=0, shape=None):
    f = Fiber([c for c, _ in tree["e"]], [p["v"] for _, p in tree["e"]], default=dflt, shape=shape)
    f.getRankAttrs().setId(rank)
    return f


def one_run(case, prefix, ncache, consume):
    out = {"ncache": ncache, "consume": consume, "exc": "ok", "ys": [], "files": [], "consumed": []}
    a, b, cs = case["a"], case["b"], case["cs"]
    i_w = mk(case["iw"], "W", case.get("dflt", 0), case.get("shape"))
    f_s = mk(case["fs"], "S") if case["outer"] else None
    loop_rank = "Q" if case["mode"] == "dst" else "W"
    files = {}
    try:
        Metrics.beginCollect(prefix)
        if ncache:
            Metrics.setNumCachedUses(ncache)
        for r in (["S"] if case["outer"] else []) + ["W", "Q"]:
            for t in TYPES:
                Metrics.trace(r, type_=t)
                if consume:
                    Metrics.trace(r, type_=t, consumable=True)
                files[(r, t)] = f"{prefix}-{r}-{t}.csv"
        ys = []
        for s, _ in (f_s if f_s is not None else [(0, 1)]):
            kw = {}
            if case["hasiv"]:
                kw["interval"] = tuple(case["iv"])
            if case["sp"] != -1:
                kw["start_pos"] = case["sp"]
            if case["mode"] == "dst":
                it = i_w.project(trans_fn=lambda w: a * w + b + cs * s, rank_id="Q", **kw)
            else:
                it = i_w.project(trans_fn=lambda w: a * w + b + cs * s, rank_id="Q", tick=True, **kw).iterOccupancy(tick=False)
            for q, v in it:
                ys.append([s, q, int(v.value if hasattr(v, "value") else v)])
        out["ys"] = ys
        consumed = {}
        if consume:
            for (r, t) in files:
                try:
                    got = Metrics.consumeTrace(r, t)
                except BaseException:  # noqa: B036
                    got = None
                consumed[(r, t)] = [[int(x) for x in row] for row in got[1:]] if got else []
        Metrics.endCollect()
        for (r, t), path in sorted(files.items()):
            rr = read_rows(path)
            rr.update({"rank": r, "type": t})
            out["files"].append(rr)
            if (r, t) in consumed:
                out["consumed"].append({"rank": r, "type": t, "rows": consumed[(r, t)], "filerows": rr["rows"]})
    except BaseException as ex:  # noqa: B036
        out["exc"] = "err:" + type(ex).__name__ + ":" + str(ex)[:100]
    finally:
        if Metrics.isCollecting():
            try:
                Metrics.endCollect()
            except BaseException:  # noqa: B036
                Metrics.collecting = False
    out["loop_rank"] = loop_rank
    return out


def execute(case):
    import shutil
    import tempfile
    base = os.path.join(ROOT, ".work", "yaml")
    wdir = tempfile.mkdtemp(prefix="pj", dir=base if os.path.isdir(base) else None)
    out = {k: v for k, v in case.items()}
    out.setdefault("dflt", 0)
    if not case["outer"]:
        out["fs"] = {"k": "F", "e": []}
    try:
        out["runs"] = [one_run(case, os.path.join(wdir, f"r{k}"), nc, cons) for k, (nc, cons) in enumerate([(0, 0), (2, 0), (0, 1)])]
    finally:
        shutil.rmtree(wdir, ignore_errors=True)
    return out
