"""Projection of real fibertree objects to the abstract JSON state of spec/FTCore.tla.

This is the only module that reads internals (Fiber.coords / .payloads / ._owner, Rank.fibers,
Rank.next_rank, Tensor._root / .ranks).  It computes no expected values.
"""
from fractions import Fraction
import sys

sys.path.insert(0, __import__("os").environ.get("VERIF_REPO", "/repo"))

from fibertree import Fiber, Payload, Tensor  # noqa: E402
from fibertree.core.rank import Rank  # noqa: E402


class Oids:
    """Interns id() of live objects into small integers (TLC integers are 32 bit).
    Keeps the objects alive so that an id is never reused inside one behaviour."""

    def __init__(self):
        self.m = {}
        self.keep = []

    def __call__(self, obj):
        k = id(obj)
        if k not in self.m:
            self.m[k] = len(self.m) + 1
            self.keep.append(obj)
        return self.m[k]


def proj_coord(c, mode="int"):
    """-> (ok, json coord)"""
    if mode == "int":
        if isinstance(c, int) and not isinstance(c, bool):
            return True, c
        return False, None
    if mode == "seq":
        if isinstance(c, int) and not isinstance(c, bool):
            return True, [c]
        if isinstance(c, tuple) and all(isinstance(x, int) and not isinstance(x, bool) for x in c):
            return True, list(c)
        return False, None
    if mode == "seqflat":
        # nested tuples (pair-style flattening) are flattened; the nesting is logged separately by the executor
        def flat(x):
            if isinstance(x, int) and not isinstance(x, bool):
                return [x]
            if isinstance(x, tuple):
                out = []
                for y in x:
                    f = flat(y)
                    if f is None:
                        return None
                    out += f
                return out
            return None
        f = flat(c)
        return (f is not None), f
    raise ValueError(mode)


def nesting(c):
    """shape of a coordinate: 'i' for an int, '(..)' for a tuple"""
    if isinstance(c, tuple):
        return "(" + "".join(nesting(x) for x in c) + ")"
    return "i"


# Value classes.  The abstract trees of the specification hold small integers; an executor may ask for other scalars to stand for them when the real objects are
# built (floats, a float zero for the default, integers beyond 2**31, nearly equal floats): VALUE_MAP maps abstract value -> real value with the same
# equalities and inequalities, and the projection maps every real value back to the abstract value it equals numerically.
VALUE_MAP = None
VALUE_MAPS = {
    "floatzero": {0: 0.0, 1: 1.0, 2: 2, 3: 3.5},
    "big": {0: 0, 1: 10 ** 12, 2: 10 ** 12 + 1, 3: -(10 ** 10)},
    "nearfloats": {0: 0, 1: 0.1 + 0.2, 2: 0.3, 3: 1e-12},
    "negative": {0: 0, 1: -1, 2: -2, 3: 7},
    "absorb": {0: 0, 1: 1.0, 2: 1e20, 3: 3.0},          # sums in which the small addend is absorbed (1e20 + 1.0 == 1e20): zero / non-zero patterns as for 1, 2, 3
}


def real(v):
    """the real scalar standing for abstract value v - a FRESH object every time (equal values must not be identical objects by accident)"""
    if VALUE_MAP and isinstance(v, int) and not isinstance(v, bool):
        r = VALUE_MAP.get(v, v)
        if isinstance(r, float):
            return float.fromhex(r.hex())
        if isinstance(r, int) and abs(r) > 1000:
            return int(str(r))
        return r
    return v


def abstract(v):
    if VALUE_MAP and isinstance(v, (int, float)) and not isinstance(v, bool):
        for a, r in VALUE_MAP.items():
            if r == v:
                return a
    return None


def proj_value(v):
    """leaf value (already unboxed once) -> payload record"""
    a = abstract(v)
    if a is not None:
        return {"k": "L", "v": a}
    if isinstance(v, bool):
        return {"k": "L", "v": int(v)}
    if isinstance(v, int):
        if -2**31 < v < 2**31:
            return {"k": "L", "v": v}
        return {"k": "X", "t": "bigint"}
    if isinstance(v, float):
        if v == int(v) and abs(v) < 2**31:
            return {"k": "L", "v": int(v), "fl": 1}
        return {"k": "X", "t": "float"}
    if isinstance(v, Payload):
        return {"k": "X", "t": "double-box"}
    if isinstance(v, Fiber):
        return {"k": "X", "t": "boxed-fiber"}
    if isinstance(v, tuple):
        return {"k": "X", "t": "tuple"}
    if isinstance(v, Fraction):
        # a number like any other (what arithmetic with a Fraction scalar leaves in a box)
        if v.denominator == 1 and abs(v.numerator) < 2**31:
            return {"k": "L", "v": int(v.numerator), "fr": 1}
        return {"k": "X", "t": "fraction"}
    return {"k": "X", "t": type(v).__name__}


def proj_payload(p, ranks=None, oids=None, mode="int", seen=None, depth=0):
    """payload as stored in a fiber's payloads list -> record"""
    if isinstance(p, Fiber):
        return proj_fiber(p, ranks, oids, mode, seen, depth)
    if isinstance(p, Payload):
        r = proj_value(p.value)
        if oids is not None:
            r["id"] = oids(p)
        return r
    # not boxed at all
    return {"k": "X", "t": "unboxed-" + type(p).__name__}


def owner_index(f, ranks):
    o = getattr(f, "_owner", None)
    if o is None:
        return -1
    if ranks is not None:
        for i, r in enumerate(ranks):
            if r is o:
                return i
    return -2


def proj_fiber(f, ranks=None, oids=None, mode="int", seen=None, depth=0):
    if seen is None:
        seen = set()
    if id(f) in seen or depth > 12:
        return {"k": "X", "t": "cyclic-or-shared-fiber"}
    seen = seen | {id(f)}
    coords = f.coords
    payloads = f.payloads
    if not isinstance(coords, list) or not isinstance(payloads, list):
        return {"k": "X", "t": "non-list-storage"}
    n = min(len(coords), len(payloads))
    e = []
    for i in range(n):
        ok, c = proj_coord(coords[i], mode)
        if not ok:
            return {"k": "X", "t": "badcoord-" + type(coords[i]).__name__}
        e.append([c, proj_payload(payloads[i], ranks, oids, mode, seen, depth + 1)])
    r = {"k": "F", "nc": len(coords), "np": len(payloads), "o": owner_index(f, ranks), "e": e}
    if oids is not None:
        r["id"] = oids(f)
    return r


def walk_paths(root, mode="int"):
    """id(fiber) -> path for every fiber object met by a raw depth-first walk (first meeting wins)"""
    out = {}

    def rec(f, path, depth):
        if id(f) in out or depth > 12:
            return
        out[id(f)] = path
        for c, p in zip(f.coords, f.payloads):
            if isinstance(p, Fiber):
                ok, cc = proj_coord(c, mode)
                rec(p, path + [cc if ok else (-999 if mode == "int" else [-999])], depth + 1)      # same JSON type as the well-formed coordinates of the mode

    if isinstance(root, Fiber):
        rec(root, [], 0)
    return out


def _shape(x):
    if x is None:
        return -1
    if isinstance(x, int):
        return x
    if isinstance(x, tuple):
        return list(x)
    return -2


def proj_rank_attrs(r):
    a = r.getAttrs() if isinstance(r, Rank) else r
    d = a.getDefault()
    d = Payload.get(d)
    if d is Fiber or (isinstance(d, type) and issubclass(d, Fiber)):
        dd = "Fiber"
    elif isinstance(d, (int, float)) and d == int(d):
        dd = int(d)
    else:
        dd = repr(d)
    return {"rid": str(a.getId()), "shape": _shape(a.getShape()), "est": bool(a.getEstimatedShape()),
            "fmt": str(a.getFormat()), "dflt": dd}


def proj_tensor(t, oids=None, mode="int"):
    ranks = list(t.ranks)
    root = t._root
    if not isinstance(root, Fiber):
        # rank-0 tensor
        return {"rank0": 1, "root": proj_payload(root, None, oids, mode), "ranks": []}
    paths = walk_paths(root, mode)
    rl = []
    for i, r in enumerate(ranks):
        fs = []
        for f in r.fibers:
            if id(f) in paths:
                fs.append({"p": paths[id(f)], "s": 0})
            else:
                fs.append({"p": [], "s": 1})
        nxt = -1
        if r.next_rank is not None:
            nxt = -2
            for j, rr in enumerate(ranks):
                if rr is r.next_rank:
                    nxt = j
        d = proj_rank_attrs(r)
        d.update({"fibers": fs, "next": nxt})
        if oids is not None:
            d["id"] = oids(r)
            d["aid"] = oids(r.getAttrs())
        rl.append(d)
    return {"rank0": 0, "root": proj_fiber(root, ranks, oids, mode), "ranks": rl}


def oid_sets(obj):
    """identity sets of the mutable parts of a fiber / tensor: fibers, boxes, ranks, attrs (python ids)"""
    s = {"fibers": set(), "boxes": set(), "ranks": set(), "attrs": set()}
    visited = set()

    def rec(f, depth=0):
        if id(f) in visited or depth > 12:
            return
        visited.add(id(f))
        s["fibers"].add(id(f))
        a = getattr(f, "_rank_attrs", None)
        if a is not None and getattr(f, "_owner", None) is None:
            s["attrs"].add(id(a))
        for p in f.payloads:
            if isinstance(p, Fiber):
                rec(p, depth + 1)
            elif isinstance(p, Payload):
                s["boxes"].add(id(p))

    if isinstance(obj, Tensor):
        for r in obj.ranks:
            s["ranks"].add(id(r))
            s["attrs"].add(id(r.getAttrs()))
            for f in r.fibers:
                s["fibers"].add(id(f))
        if isinstance(obj._root, Fiber):
            rec(obj._root)
        elif isinstance(obj._root, Payload):
            s["boxes"].add(id(obj._root))
    elif isinstance(obj, Fiber):
        rec(obj)
    return s


# ---------------------------------------------------------------------------------------------
# building real objects from abstract trees (public constructors only)
# ---------------------------------------------------------------------------------------------
def build_fiber(tree, default=0, shape=None):
    """tree: {"k":"F","e":[[c,p],..]} with leaves {"k":"L","v":n}; shape: list per level or None"""
    coords = []
    payloads = []
    for c, p in tree["e"]:
        coords.append(tuple(c) if isinstance(c, list) else c)
        if p["k"] == "F":
            payloads.append(build_fiber(p, default, shape[1:] if shape else None))
        else:
            payloads.append(real(p["v"]))
    kw = {}
    if shape:
        kw["shape"] = shape[0]
    return Fiber(coords, payloads, default=real(default), **kw)


def build_tensor(tree, rank_ids, shape=None, default=0, name="T"):
    f = build_fiber(tree, default)
    return Tensor.fromFiber(rank_ids=list(rank_ids), fiber=f, shape=shape, default=real(default), name=name)


def strip(tree):
    """remove implementation-only fields (ids, nc/np, o) -> pure abstract tree"""
    if tree["k"] == "F":
        return {"k": "F", "e": [[c, strip(p)] for c, p in tree["e"]]}
    if tree["k"] == "L":
        return {"k": "L", "v": tree["v"]}
    return dict(tree)
