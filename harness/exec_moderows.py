"""Executor for iteration-mode traces (C16): a two-level loop nest over a depth-2 tensor A[m, k] whose OUTER loop uses one of the traversal modes
(occupancy, range, active range, shape, range-shape, active-shape, shape with references, default iteration of a rank declared uncompressed) and whose
inner loop is plain iteration; run under collection with the iter traces of both ranks registered, three times (flush thresholds, consumable).
No expected values."""
import os
import sys

sys.path.insert(0, __import__("os").environ.get("VERIF_REPO", "/repo"))
from fibertree import Fiber, Tensor  # noqa: E402
from fibertree.core.metrics import Metrics  # noqa: E402
from . import proj  # noqa: E402
from .exec_metrics import read_rows  # noqa: E402

ROOT = os.path.dirname(os.path.dirname(os.path.abspath(__file__)))


def one_run(case, prefix, ncache, consume, midcache=0):
    out = {"ncache": ncache, "consume": consume, "exc": "ok", "visits": [], "files": [], "consumed": []}
    w = case.get("tuplew", 0)
    if w:
        # the outer rank holds the tuple coordinates (c // w, c % w) (a flattened rank), declared to the tracer with associateShape: rows name the flattened coordinate c
        sub = [proj.build_fiber(p, shape=[case["shape"]]) for _, p in case["a"]["e"]]
        root = Fiber([(c // w, c % w) for c, _ in case["a"]["e"]], sub)
        t = Tensor.fromFiber(rank_ids=["M", "K"], fiber=root, name="A")
    else:
        t = proj.build_tensor(case["a"], ["M", "K"], shape=[case["shape"], case["shape"]], name="A")
    if case["omode"] == "fmtU":
        t.setFormat("M", "U")
    a_m = t.getRoot()
    if case["hasact"]:
        a_m.setActive(tuple(case["act"]))
    files = {}
    # (for ftrace) what a plain walk of the occupancy visits, taken before collection starts
    pre_visits = [[int(m), [int(k) for k, _ in a_k.iterOccupancy(tick=False)]] for m, a_k in a_m.iterOccupancy(tick=False) if isinstance(a_k, Fiber)] \
        if case["omode"] == "ftrace" else []
    try:
        Metrics.beginCollect(prefix)
        if w:
            Metrics.associateShape("M", (case["shape"] // w + 1, w))
        if ncache:
            Metrics.setNumCachedUses(ncache)
        for r in (("K",) if case.get("only_inner") else ("M", "K")):
            Metrics.trace(r, type_="iter")
            if consume:
                Metrics.trace(r, type_="iter", consumable=True)
            files[(r, "iter")] = f"{prefix}-{r}-iter.csv"
        if case["omode"] == "ftrace":
            # no loop nest at all: the sub-tree is traced explicitly with Fiber.trace() (trace type "iter"), after both ranks were registered
            out["visits"] = pre_visits
            Metrics.registerRank("M")
            Metrics.registerRank("K")
            a_m.trace("iter")
        lo, hi, st = case["lo"], case["hi"], case["step"]
        it = {"ftrace": lambda: [], "occ": lambda: a_m.iterOccupancy(), "default": lambda: a_m, "fmtU": lambda: a_m, "range": lambda: a_m.iterRange(lo, hi), "active": lambda: a_m.iterActive(),
              "shape": lambda: a_m.iterShape(), "rangeshape": lambda: a_m.iterRangeShape(lo, hi, st), "activeshape": lambda: a_m.iterActiveShape(),
              "shaperef": lambda: a_m.iterShapeRef()}[case["omode"]]()
        nvis = 0
        for m, a_k in it:
            inner = []
            if isinstance(a_k, Fiber):
                for k, v in a_k:
                    inner.append(int(k))
            out["visits"].append([int(m[0] * w + m[1]) if isinstance(m, tuple) else int(m), inner])
            nvis += 1
            if midcache and nvis == 2:
                Metrics.setNumCachedUses(2)           # the flush threshold lowered in the middle of the collection
        consumed = {}
        if consume:
            for (r, ty) in files:
                got = Metrics.consumeTrace(r, ty)
                consumed[(r, ty)] = [[int(x) for x in row] for row in got[1:]] if got else []
        Metrics.endCollect()
        for (r, ty), path in sorted(files.items()):
            rr = read_rows(path)
            rr.update({"rank": r, "type": ty})
            out["files"].append(rr)
            if (r, ty) in consumed:
                out["consumed"].append({"rank": r, "type": ty, "rows": consumed[(r, ty)], "filerows": rr["rows"]})
    except BaseException as ex:  # noqa: B036
        out["exc"] = "err:" + type(ex).__name__ + ":" + str(ex)[:100]
    finally:
        if Metrics.isCollecting():
            try:
                Metrics.endCollect()
            except BaseException:  # noqa: B036
                Metrics.collecting = False
    return out


def execute(case):
    import shutil
    import tempfile
    base = os.path.join(ROOT, ".work", "yaml")
    wdir = tempfile.mkdtemp(prefix="mo", dir=base if os.path.isdir(base) else None)
    out = {k: v for k, v in case.items()}
    try:
        out["runs"] = [one_run(case, os.path.join(wdir, f"r{k}"), nc, cons, mid) for k, (nc, cons, mid) in enumerate([(0, 0, 0), (2, 0, 0), (0, 1, 0), (0, 0, 1), (5, 0, 1)])]
    finally:
        shutil.rmtree(wdir, ignore_errors=True)
    return out
