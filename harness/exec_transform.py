"""Executor for rank-transform cases (C09; the logs also feed C14 / C10)."""
import copy
import sys

sys.path.insert(0, __import__("os").environ.get("VERIF_REPO", "/repo"))
from fibertree import Fiber, Payload, Tensor  # noqa: E402
from . import proj  # noqa: E402

IDS = ["K", "M", "N", "P"]
COORD_FN = {"shift": lambda i, c, p: c + 2, "reverse": lambda i, c, p: 10 - c, "double": lambda i, c, p: 2 * c}
VAL_FN = {"dbl": lambda v: 2 * v, "inc": lambda v: v + 1}


def pj(obj, oids=None):
    """projection with sequence coordinates of a tensor or a fiber"""
    if isinstance(obj, Tensor):
        return proj.proj_tensor(obj, oids, mode="seqflat")
    return {"rank0": 0, "root": proj.proj_fiber(obj, None, oids, mode="seqflat"), "ranks": []}


def first_coord_nest(obj, d):
    f = obj.getRoot() if isinstance(obj, Tensor) else obj
    for _ in range(d):
        if not f.coords:
            return ""
        f = f.payloads[0]
    return proj.nesting(f.coords[0]) if f.coords else ""


def attrs(obj):
    """rank ids, shapes, default, formats, mutability of a tensor result (read by C14)"""
    if not isinstance(obj, Tensor):
        return {}
    out = {"ids": [str(x) for x in obj.getRankIds()], "dflt": proj.proj_rank_attrs(obj.ranks[-1])["dflt"] if obj.ranks else 0,
           "fmts": [str(r.getFormat()) for r in obj.ranks], "mutable": bool(obj.isMutable())}
    try:
        out["shape"] = proj._shape(tuple(obj.getShape(authoritative=True))) if obj.getShape(authoritative=True) else -1
    except Exception as ex:  # noqa: BLE001
        out["shape"] = "err:" + type(ex).__name__
    return out


def execute(case):
    oids = proj.Oids()
    op, depth = case["op"], case["depth"]
    shape = case.get("shape", 4)
    out = {k: v for k, v in case.items() if k != "tree"}
    for k, d in (("via", "tensor"), ("d", 0), ("levels", 1), ("style", "tuple"), ("fn", "sum"), ("guide", []), ("step", 2), ("fd", 0)):
        out.setdefault(k, d)
    empty = {"rank0": 0, "root": {"k": "F", "e": []}, "ranks": []}
    out.update({"exc": "ok", "shapes": [shape] * depth, "res": empty, "res2": empty, "eq": 0, "did2": 0, "nest": "", "post": {},
                "empty": 0 if case["tree"]["e"] else 1, "active_ok": 1, "leafdflt_ok": 1, "dflt": case.get("dflt", 0)})
    try:
        t = proj.build_tensor(case["tree"], IDS[:depth], shape=[shape] * depth if case.get("declshape", 1) else None, default=case.get("dflt", 0))
        if case.get("fmts"):
            for rid, fm in zip(IDS[:depth], case["fmts"]):
                t.setFormat(rid, fm)
        if case.get("dflt"):
            pass
        out["pre"] = pj(t, oids)
        out["attrs0"] = attrs(t)
        via = case.get("via", "tensor")
        src = t if via == "tensor" else t.getRoot()
        d = out["d"]
        if op == "swizzle":
            new_ids = [IDS[g - 1] for g in case["guide"]]
            r = t.swizzleRanks(new_ids)
            r2 = r.swizzleRanks(IDS[:depth])
            out["res"], out["res2"], out["eq"], out["did2"] = pj(r), pj(r2), 1 if r2 == t else 0, 1
        elif op == "swap":
            if via == "tensor":
                r = src.swapRanks(depth=d)
            elif d == 0:
                r = src.swapRanks()
            else:
                r = copy.deepcopy(src)
                r.setOwner(None)
                r.swapRanksBelow(depth=d - 1)
            out["res"] = pj(r)
        elif op == "flatswap":
            t1 = t.flattenRanks(depth=case["fd"], levels=1, coord_style=out["style"])
            r = t1.swapRanks(depth=d)
            r2 = r.swapRanks(depth=d)
            out["res"], out["res2"], out["did2"] = pj(r), pj(r2), 1
        elif op == "flatten":
            kw = {"coord_style": out["style"]} if via == "tensor" else {"style": out["style"]}
            r = src.flattenRanks(depth=d, levels=out["levels"], **kw)
            out["res"] = pj(r)
            out["nest"] = first_coord_nest(r, d)
            if out["style"] in ("tuple", "pair") and case.get("unflatten", 1):
                if via == "tensor":
                    r2 = r.unflattenRanks(depth=d, levels=out["levels"])
                elif d == 0:
                    r2 = r.unflattenRanks(levels=out["levels"])
                else:
                    r2 = copy.deepcopy(r)
                    r2.unflattenRanksBelow(depth=d - 1, levels=out["levels"])
                out["res2"], out["did2"] = pj(r2), 1
                # the default an unwritten point reads as, in every leaf fiber of the round trip's result
                def leaves(f, lv):
                    if lv == 1:
                        return [f]
                    return [x for p in f.payloads if isinstance(p, Fiber) for x in leaves(p, lv - 1)]
                root2 = r2.getRoot() if isinstance(r2, Tensor) else r2
                out["leafdflt_ok"] = 1 if all(Payload.get(lf.getDefault()) == case.get("dflt", 0) for lf in leaves(root2, depth)) else 0
        elif op == "merge":
            fn = (lambda ps: max(ps)) if out["fn"] == "max" else None
            kw = {"coord_style": out["style"]} if via == "tensor" else {"style": out["style"]}
            r = src.mergeRanks(depth=d, levels=out["levels"], merge_fn=fn, **kw)
            out["res"] = pj(r)
        elif op == "splitflatten":
            sp = src.splitUniform(out["step"], depth=d)
            kw = {"coord_style": "absolute"} if via == "tensor" else {"style": "absolute"}
            r = sp.flattenRanks(depth=d, levels=1, **kw)
            out["res"] = pj(r)
            out["eq"] = 1 if (((r.getRoot() if via == "tensor" else r) == t.getRoot())) else 0     # rank ids differ after split+flatten; compare trees
        elif op == "splitswizzle":
            # the tiling idiom: split rank d uniformly, then move the lower part above the upper one, and back
            sp = t.splitUniform(out["step"], depth=d)
            ids = list(sp.getRankIds())
            new_ids = ids[:d] + [ids[d + 1], ids[d]] + ids[d + 2:]
            r = sp.swizzleRanks(new_ids)
            r2 = r.swizzleRanks(ids)
            out["res"], out["res2"], out["eq"], out["did2"] = pj(r), pj(r2), 1 if r2 == sp else 0, 1
            # every stored coordinate of the result lies inside its fiber's active range
            def inside(f):
                lo, hi = f.getActive()
                ok = all(lo <= c < hi for c in f.coords)
                return ok and all(inside(p) for p in f.payloads if hasattr(p, "coords"))
            out["active_ok"] = 1 if (inside(r.getRoot()) and inside(r2.getRoot())) else 0
        elif op == "updcoords":
            r = t.updateCoords(COORD_FN[out["fn"]], depth=d)
            out["res"] = pj(r)
        elif op == "updpayloads":
            fn = VAL_FN[out["fn"]]
            r = t.updatePayloads(lambda i, c, p: Payload(fn(Payload.get(p))), depth=depth - 1)
            out["res"] = pj(r)
        else:
            raise ValueError(op)
        out["attrs"] = attrs(r)
        out["post"] = pj(t, oids)
    except BaseException as ex:  # noqa: B036
        out["exc"] = "err:" + type(ex).__name__ + ":" + str(ex)[:80]
        out.setdefault("pre", empty)
    return out
