"""C15 - metrics collection is transparent, exact and session-isolated"""
from . import tlc, family
from .c06 import kernel_cases
from .kernel import rid

TYPES = ["iter", "intersect_0", "intersect_1", "populate_read_0", "populate_write_0", "populate_1"]


def tr_ranks(k):
    """ranks whose traces are registered: all loop ranks; for the product reduction only M (K is walked by iterShape: ticks, traces nothing - DESIGN.md 10.3)"""
    rs = [rid(v) for v in k["order"]]
    return rs[:1] if k["expr"].get("prod") else rs


def sessions_cases(ctx, n_cases, per=4):
    rng = ctx.rng
    pool = [k for k in kernel_cases(rng, 3 if ctx.quick else 12, True, pz=0.3) if not k.get("tile") or rng.random() < 0.3]
    from .c06 import no_ghost_tree
    plus = {"out": ["m"], "facs": [{"t": "A", "ix": ["m"]}, {"t": "B", "ix": ["m"]}], "plus": 1}
    for _ in range(len(pool) // 6 + 4):
        b = no_ghost_tree(rng, 4, 1, 0.2)
        # negative values: sums that cancel assign the value the output reference already holds (an update all the same)
        b = {"k": "F", "e": [[c, {"k": "L", "v": -p["v"] if rng.random() < 0.5 else p["v"]}] for c, p in b["e"]]}
        pool.append({"shape": "ewadd", "expr": plus, "ops": {"A": no_ghost_tree(rng, 4, 1, 0.2), "B": b}, "order": ["m"], "style": "tf",
                     "extents": {"m": 4}, "zshape": 1, "warm": rng.choice([0, 1])})
    # dense product reductions P[m] = prod_k A[m,k] with `*=` bodies (rows holding zeros: the running product becomes and stays 0)
    prod = {"out": ["m"], "facs": [{"t": "A", "ix": ["m", "k"]}], "prod": 1}
    for _ in range(len(pool) // 8 + 3):
        pool.append({"shape": "prodreduce", "expr": prod, "ops": {"A": no_ghost_tree(rng, 3, 2, 0.3)}, "order": ["m", "k"], "style": "tf",
                     "extents": {"m": 3, "k": 3}, "zshape": 1})
    cases = []
    for _ in range(n_cases):
        ks = [dict(k) for k in rng.sample(pool, 2)]
        for k in ks:
            if not k["expr"].get("plus") and not k.get("tile") and k.get("style", "tf") == "tf" and rng.random() < 0.5:
                # an operand rank declared uncompressed (zero factors are delivered) and a body that accumulates every product: the adds onto a non-zero
                # accumulator are executed and counted whatever the product is
                # (only at levels where two factors are intersected: a rank declared uncompressed that drives a loop ALONE is walked by the dense
                # iterators, which tick the counter but trace no access - see DESIGN.md 10.3)
                cand = [(f["t"], v) for f in k["expr"]["facs"] for v in f["ix"] if sum(1 for g in k["expr"]["facs"] if v in g["ix"]) >= 2]
                if cand:
                    t_, v_ = rng.choice(cand)
                    k["ufmt"] = [[t_, v_]]
                    k["nofilter"] = 1
        for k in ks:
            if not k["expr"].get("plus") and rng.random() < 0.25:
                k["vmap"] = "absorb"          # float operands whose sums absorb the smaller addend: every executed add still counts
        seq = []
        for j in range(per + rng.randint(0, 2)):
            kidx = rng.choice([0, 0, 1])
            k = dict(ks[kidx])
            k["zshape"] = 1
            ranks = [rid(v) for v in k["order"]]
            collect = rng.choice([0, 1, 1])
            if k["expr"].get("prod"):
                ranks = ranks[:1]           # the K rank is walked by iterShape (ticks, traces nothing - DESIGN.md 10.3)
            traces = sorted([r, t] for r in ranks for t in TYPES if rng.random() < 0.3)
            seq.append({"kid": kidx, "kernel": k, "collect": collect, "traces": traces if collect else [], "ncache": rng.choice([0, 0, 2, 3]) if collect else 0,
                        "dirty": rng.choice([0, 0, 0, 1, 2]),
                        "abort": (rng.randint(1, 2) if (collect and rng.random() < 0.12) else 0)})
        # make sure every kernel of the case is seen both off and on, and repeated with the same traces
        base = seq[0]
        seq.append(dict(base, collect=0, traces=[], abort=0, ncache=0))
        on = dict(base, collect=1, traces=sorted([r, "iter"] for r in tr_ranks(base["kernel"])), abort=0, ncache=0)
        seq.insert(rng.randint(0, len(seq)), on)
        seq.append(dict(on, ncache=rng.choice([0, 2])))
        other = [x for x in seq if x["kid"] != base["kid"]]
        if other:
            o = other[0]
            seq.append(dict(o, collect=1, traces=sorted([r, "iter"] for r in tr_ranks(o["kernel"])), abort=0, ncache=0))
            seq.append(dict(o, collect=0, traces=[], abort=0, ncache=0))
        cases.append({"sessions": seq})
    # the second class of outputs: tensors WITHOUT a declared shape (kept apart so that a finding there cannot hide the rest)
    for _ in range(max(10, n_cases // 6)):
        k = dict(rng.choice([x for x in pool if x["expr"]["out"]]))
        k["zshape"] = 0
        ranks = [rid(v) for v in k["order"]]
        cases.append({"shapeless": 1, "sessions": [{"kid": 0, "kernel": k, "collect": 0, "traces": [], "abort": 0, "ncache": 0},
                                                   {"kid": 0, "kernel": k, "collect": 1, "traces": sorted([r, "iter"] for r in ranks), "abort": 0, "ncache": 0}]})
    return cases


def run(ctx):
    cfg = tlc.write_cfg("MC_Metrics_run.cfg", f"CONSTANTS\n MAXEV = {7 if ctx.quick else 9}\nINIT Init\nNEXT Next\nINVARIANT Isolated\nINVARIANT FreshAfterBegin\nCHECK_DEADLOCK FALSE\n")
    r = tlc.model_check("MC_Metrics.tla", cfg, workers=8)
    design = [family.design_entry("MC_Metrics", "sessions", r, "exhaustive over event sequences: the registers of the Metrics machine equal a reference restarted at every "
                                  "beginCollect, across finished and aborted sessions", ["Isolated", "FreshAfterBegin"])]
    cases = sessions_cases(ctx, 900 if ctx.quick else 4000)
    part = family.run_family(ctx, "C15", cases, "harness.exec_metrics", "MetricsTrace.tla", "MetricsTrace.cfg",
                             op_of=lambda c, lg, st: "sessions", where_of=lambda c, lg, st: "shapeless-output" if c.get("shapeless") else "declared-shape",
                             beh_of=lambda c: {"sessions": c["sessions"]})
    part["evaluations"] = sum(len(c["sessions"]) for c in cases)
    res = {"design": design, "states": r["stats"]["distinct"], "transitions": r["stats"]["generated"], "exhaustive": False,
           "rule": "a case is a sequence of 6-9 sessions in one process over two kernels of the C06 family (all shapes, loop orders, both styles, some tiled): collection "
                   "off / on with a random subset of (rank, trace type) registered, random flush thresholds, sessions aborted by an exception in the loop body, and "
                   "forced repeats of the same kernel off, on, and on again; evaluations = sessions run",
           "assumptions": ["kernels from the C06 family", "counter clauses for the two-finger style (the leader-follower style multiplies by defaults that are then filtered)",
                           "output tensors with a declared shape (the shapeless class is listed separately)"],
           "scope": {"cases": len(cases)}}
    return family.merge(res, part)


def replay(ctx, rec):
    return family.replay_family(ctx, "C15", rec, "harness.exec_metrics", "MetricsTrace.tla", "MetricsTrace.cfg")
