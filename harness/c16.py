"""C16 - traces are well-formed: one sorted, correctly addressed row per traced event"""
from . import tlc, family
from .c06 import kernel_cases
from .kernel import rid

TYPES = ["iter", "intersect_0", "intersect_1", "populate_1", "populate_read_0", "populate_write_0"]
UTYPES = ["union_0", "union_1", "union_2", "union_3"]


def cases_for(ctx, n):
    rng = ctx.rng
    pool = [k for k in kernel_cases(rng, 4 if ctx.quick else 14, True, pz=0.25) if k["style"] == "tf"]
    # element-wise addition in the union idiom (z_m << (a_m | b_m)): union_i rows
    from .c06 import no_ghost_tree
    plus = {"out": ["m"], "facs": [{"t": "A", "ix": ["m"]}, {"t": "B", "ix": ["m"]}], "plus": 1}
    upool = [{"shape": "ewadd", "expr": plus, "ops": {"A": no_ghost_tree(rng, 5, 1, 0.2), "B": no_ghost_tree(rng, 5, 1, 0.2)}, "order": ["m"], "style": "tf",
              "extents": {"m": 5}, "zshape": 1} for _ in range(max(4, len(pool) // 8))]
    cases = []
    for _ in range(n):
        k = dict(rng.choice(upool if rng.random() < 0.15 else pool))
        ranks = [rid(v) for v in k["order"]]
        traces = sorted([r, t] for r in ranks for t in TYPES + (UTYPES if k["expr"].get("plus") else []))
        base = {"kid": 0, "kernel": k, "collect": 1, "traces": traces, "abort": 0}
        seq = [dict(base, ncache=0), dict(base, ncache=2), dict(base, ncache=3, consume=1), dict(base, ncache=0, consume=1)]
        if k["expr"].get("plus"):
            # the output filled from B by another loop first; the judged populate expression built after that, or before it (while the output was empty):
            # the rows describe the iteration, so the two sessions write the same files
            for pb in (0, 1):
                seq.append(dict(base, kid=1, kernel=dict(k, prefill="b", prebuilt=pb), ncache=0))
        # ... and with only a subset of the (rank, type) pairs registered: what one trace holds does not depend on which other traces are collected
        sub = [x for x in traces if rng.random() < 0.4]
        if sub:
            seq.append(dict(base, traces=sub, ncache=0))
            one = [rng.choice(traces)]
            seq.append(dict(base, traces=one, ncache=rng.choice([0, 2])))
        cases.append({"sessions": seq})
    return cases


def rand_fiber(rng, nc, pz, pabs):
    return {"k": "F", "e": [[c, {"k": "L", "v": 0 if rng.random() < pz else rng.randint(1, 3)}] for c in range(nc) if rng.random() >= pabs]}


def has_explicit_default(t, d=0):
    return any(p["v"] == d for _, p in t["e"])


def project_cases(ctx, n):
    """loop nests over a coordinate projection (convolution-style index arithmetic), every (rank, type) traced"""
    rng = ctx.rng
    cases = []
    while len(cases) < n:
        nc = rng.choice([3, 4, 6])
        iw = rand_fiber(rng, nc, rng.choice([0, 0.25]), rng.choice([0.2, 0.5]))
        outer = rng.choice([0, 1, 1])
        fs = rand_fiber(rng, 3, 0.15, 0.3) if outer else {"k": "F", "e": []}
        a = rng.choice([1, 1, 2, -1])
        cs = rng.choice([-1, 0, 1]) if outer else 0
        b = rng.randint(0, 3) + (2 * nc if a < 0 else 0)
        mode = rng.choice(["dst", "dst", "src"])
        hasiv = rng.choice([0, 1])
        lo = rng.randint(0, nc)
        iv = [lo, lo + rng.randint(0, nc)]
        svals = [c for c, _ in fs["e"]] if outer else [0]
        if mode == "src" and hasiv:
            # the ticking source must run to its end (a projection that stops early abandons the source's iteration: out of scope)
            top = max([a * c + b + cs * s for c, _ in iw["e"] for s in svals] + [0])
            iv[1] = top + 1 + rng.randint(0, 2)
        sp = -1
        if a > 0 and hasiv and iw["e"] and rng.random() < 0.3:
            ok = [k for k in range(len(iw["e"])) if k == 0 or all(iw["e"][k - 1][0] < iv[0] and a * iw["e"][k - 1][0] + b + cs * s < iv[0] for s in svals)]
            sp = rng.choice(ok)
        cases.append({"outer": outer, "fs": fs, "iw": iw, "a": a, "b": b, "cs": cs, "mode": mode, "hasiv": hasiv, "iv": iv, "sp": sp, "dflt": 0, "shape": nc})
    return cases


def mode_cases(ctx, n):
    """two-level nests whose outer loop uses every traversal mode of C07 (the inner rows must name the coordinate being visited)"""
    from .c05 import rand_tree
    rng = ctx.rng
    cases = []
    for _ in range(n):
        nc = rng.choice([3, 4])
        a = rand_tree(rng, nc, 2, pz=rng.choice([0, 0.2]), pabs=rng.choice([0.2, 0.4]))
        lo = rng.randint(0, nc)
        a0 = rng.randint(0, nc - 1)
        cases.append({"a": a, "shape": nc, "omode": rng.choice(["occ", "default", "range", "active", "shape", "rangeshape", "activeshape", "shaperef", "fmtU"]),
                      "lo": lo, "hi": rng.randint(lo, nc + 1), "step": rng.randint(1, 2), "hasact": rng.choice([0, 1]), "act": [a0, rng.randint(a0, nc)]})
        if rng.random() < 0.3:
            # the explicit tracing entry point Fiber.trace(), with both traces or only the inner one registered
            cases.append({"a": a, "shape": nc, "omode": "ftrace", "lo": 0, "hi": 0, "step": 1, "hasact": 0, "act": [0, 0], "only_inner": rng.choice([0, 1])})
        if rng.random() < 0.3:
            # the outer rank as a flattened rank (tuple coordinates, flattened for the traces): the rows below it still name the coordinate being visited
            cases.append({"a": a, "shape": nc, "omode": rng.choice(["occ", "default"]), "lo": 0, "hi": 0, "step": 1, "hasact": 0, "act": [0, 0], "tuplew": rng.choice([2, 3])})
    return cases


def project_where(c):
    w = []
    if c["a"] < 0:
        w.append("reversed")
    if has_explicit_default(c["iw"]):
        w.append("explicit-zeros")
    if c["sp"] > 0:
        w.append("start-pos")
    return "+".join(w) or "canonical"


def run(ctx):
    cfg = tlc.write_cfg("MC_Metrics_c16.cfg", f"CONSTANTS\n MAXEV = {7 if ctx.quick else 9}\nINIT Init\nNEXT Next\nINVARIANT Isolated\nCHECK_DEADLOCK FALSE\n")
    r = tlc.model_check("MC_Metrics.tla", cfg, name="c16m", workers=8)
    design = [family.design_entry("MC_Metrics", "registers", r, "exhaustive over event sequences: AddUse / IncIter / EndIter / RegisterRank registers behave the same in every session", ["Isolated"])]
    cfgc = tlc.write_cfg("MC_Coiter_c16.cfg", "CONSTANTS\n NC = 3\n VMAX = 1\nINIT Init\nNEXT Next\nINVARIANT DesignOK\nCHECK_DEADLOCK FALSE\n")
    rc = tlc.model_check("MC_Coiter.tla", cfgc, name="c16c", workers=1)
    design.append(family.design_entry("MC_Coiter", "two-finger", rc, "exhaustive: the two-finger machine whose touched elements define the intersect_i rows equals the truth tables", ["DesignOK"]))
    cases = cases_for(ctx, 80 if ctx.quick else 1500)
    part = family.run_family(ctx, "C16", cases, "harness.exec_metrics", "RowsTrace.tla", "RowsTrace.cfg",
                             op_of=lambda c, lg, st: c["sessions"][0]["kernel"]["shape"],
                             where_of=lambda c, lg, st: "explicit-zeros" if has_zero(c["sessions"][0]["kernel"]["ops"]) else "canonical",
                             beh_of=lambda c: {"sessions": c["sessions"]})
    res = {"design": design, "states": r["stats"]["distinct"] + rc["stats"]["distinct"], "transitions": r["stats"]["generated"] + rc["stats"]["generated"], "exhaustive": False,
           "rule": "a case is one kernel of the C06 family (all shapes and loop orders, tiled ones included, operands with explicit zeros and empty fibers) run four times with "
                   "every (rank, trace type) registered: flush thresholds default / 2 / 3 and consumable traces; every CSV file is consumed row by row against the loop-nest "
                   "and two-finger machines (project_i: against the projection slice of FTTraverse, three runs per nest): header, one row per traced access in order, stamps sorted (strictly for iter), point, position; evaluations = sessions",
           "assumptions": ["exact stamp values are not pinned (the statement orders them)", "project_i traces: one- and two-level nests over an affine projection (direct, reversed, interval, saved position), the projected fiber or the ticking source as loop operand; a projection that stops a ticking source early is out of scope",
                           "intersect_i rows are judged for two-operand non-output levels, populate_i rows for single-operand output levels; destination-side rows for order and completeness"],
           "scope": {"cases": len(cases)}}
    part["evaluations"] = 4 * len(cases)
    pcases = project_cases(ctx, 300 if ctx.quick else 6000)
    part2 = family.run_family(ctx, "C16", pcases, "harness.exec_projtrace", "ProjRowsTrace.tla", "ProjRowsTrace.cfg",
                              op_of=lambda c, lg, st: "project:" + c["mode"], where_of=lambda c, lg, st: project_where(c), name="proj")
    part2["evaluations"] = 3 * len(pcases)
    res["scope"]["project_cases"] = len(pcases)
    mcases = mode_cases(ctx, 300 if ctx.quick else 6000)
    part3 = family.run_family(ctx, "C16", mcases, "harness.exec_moderows", "ModeRowsTrace.tla", "ModeRowsTrace.cfg",
                              op_of=lambda c, lg, st: "mode:" + c["omode"], where_of=lambda c, lg, st: "explicit-zeros" if has_zero({"A": c["a"]}) else "canonical", name="modes")
    part3["evaluations"] = 3 * len(mcases)
    res["scope"]["mode_cases"] = len(mcases)
    return family.merge(family.merge(family.merge(res, part), part2), part3)


def has_zero(ops):
    """does an operand store an element without content (an explicit default value or an empty sub-fiber)?"""
    def z(p, root):
        if p["k"] == "L":
            return p["v"] == 0
        return (not root and not p["e"]) or any(z(q, False) for _, q in p["e"])
    return any(z(t, True) for t in ops.values())


def replay(ctx, rec):
    if "omode" in rec["behaviour"]:
        return family.replay_family(ctx, "C16", rec, "harness.exec_moderows", "ModeRowsTrace.tla", "ModeRowsTrace.cfg")
    if "sessions" not in rec["behaviour"]:
        return family.replay_family(ctx, "C16", rec, "harness.exec_projtrace", "ProjRowsTrace.tla", "ProjRowsTrace.cfg")
    return family.replay_family(ctx, "C16", rec, "harness.exec_metrics", "RowsTrace.tla", "RowsTrace.cfg")
