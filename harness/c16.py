"""C16 - traces are well-formed: one sorted, correctly addressed row per traced event"""
from . import tlc, family
from .c06 import kernel_cases
from .kernel import rid

TYPES = ["iter", "intersect_0", "intersect_1", "populate_1", "populate_read_0", "populate_write_0"]


def cases_for(ctx, n):
    rng = ctx.rng
    pool = [k for k in kernel_cases(rng, 4 if ctx.quick else 14, True, pz=0.25) if k["style"] == "tf"]
    cases = []
    for _ in range(n):
        k = dict(rng.choice(pool))
        ranks = [rid(v) for v in k["order"]]
        traces = sorted([r, t] for r in ranks for t in TYPES)
        base = {"kid": 0, "kernel": k, "collect": 1, "traces": traces, "abort": 0}
        seq = [dict(base, ncache=0), dict(base, ncache=2), dict(base, ncache=3, consume=1), dict(base, ncache=0, consume=1)]
        cases.append({"sessions": seq})
    return cases


def run(ctx):
    cfg = tlc.write_cfg("MC_Metrics_c16.cfg", f"CONSTANTS\n MAXEV = {7 if ctx.quick else 9}\nINIT Init\nNEXT Next\nINVARIANT Isolated\nCHECK_DEADLOCK FALSE\n")
    r = tlc.model_check("MC_Metrics.tla", cfg, name="c16m", workers=8)
    design = [family.design_entry("MC_Metrics", "registers", r, "exhaustive over event sequences: AddUse / IncIter / EndIter / RegisterRank registers behave the same in every session", ["Isolated"])]
    cfgc = tlc.write_cfg("MC_Coiter_c16.cfg", "CONSTANTS\n NC = 3\n VMAX = 1\nINIT Init\nNEXT Next\nINVARIANT DesignOK\nCHECK_DEADLOCK FALSE\n")
    rc = tlc.model_check("MC_Coiter.tla", cfgc, name="c16c", workers=1)
    design.append(family.design_entry("MC_Coiter", "two-finger", rc, "exhaustive: the two-finger machine whose touched elements define the intersect_i rows equals the truth tables", ["DesignOK"]))
    cases = cases_for(ctx, 80 if ctx.quick else 1500)
    part = family.run_family(ctx, "C16", cases, "harness.exec_metrics", "RowsTrace.tla", "RowsTrace.cfg",
                             op_of=lambda c, lg, st: c["sessions"][0]["kernel"]["shape"],
                             where_of=lambda c, lg, st: "explicit-zeros" if has_zero(c["sessions"][0]["kernel"]["ops"]) else "canonical",
                             beh_of=lambda c: {"sessions": c["sessions"]})
    res = {"design": design, "states": r["stats"]["distinct"] + rc["stats"]["distinct"], "transitions": r["stats"]["generated"] + rc["stats"]["generated"], "exhaustive": False,
           "rule": "a case is one kernel of the C06 family (all shapes and loop orders, tiled ones included, operands with explicit zeros and empty fibers) run four times with "
                   "every (rank, trace type) registered: flush thresholds default / 2 / 3 and consumable traces; every CSV file is consumed row by row against the loop-nest "
                   "and two-finger machines: header, one row per traced access in order, stamps sorted (strictly for iter), point, position; evaluations = sessions",
           "assumptions": ["exact stamp values are not pinned (the statement orders them)", "project_i traces are not exercised",
                           "intersect_i rows are judged for two-operand non-output levels, populate_i rows for single-operand output levels; destination-side rows for order and completeness"],
           "scope": {"cases": len(cases)}}
    part["evaluations"] = 4 * len(cases)
    return family.merge(res, part)


def has_zero(ops):
    def z(p):
        return p["v"] == 0 if p["k"] == "L" else any(z(q) for _, q in p["e"])
    return any(z(t) for t in ops.values())


def replay(ctx, rec):
    return family.replay_family(ctx, "C16", rec, "harness.exec_metrics", "RowsTrace.tla", "RowsTrace.cfg")
