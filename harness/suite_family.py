"""Runs the repository's own test-suite under harness/suite_trace.py (a pytest plugin; nothing in the repository is changed) in a scratch copy of
its test directory, and validates every recorded public call with spec/SuiteTrace.tla.  Used by C01, C02 and C10."""
import json
import os
import shutil
import subprocess
import sys

from . import tlc

ROOT = os.path.dirname(os.path.dirname(os.path.abspath(__file__)))


def record(maxnodes=48):
    repo = os.environ.get("VERIF_REPO", "/repo")
    d = os.path.join(ROOT, ".work", "suite", str(os.getpid()))
    shutil.rmtree(d, ignore_errors=True)
    os.makedirs(d)
    shutil.copytree(os.path.join(repo, "test"), os.path.join(d, "test"))
    out = os.path.join(d, "events.ndjson")
    env = dict(os.environ, PYTHONPATH=ROOT, VERIF_REPO=repo, VERIF_SUITE_OUT=out, VERIF_SUITE_MAXNODES=str(maxnodes), PYTHONDONTWRITEBYTECODE="1", PYTHONHASHSEED="0")
    env.pop("FIBERTREE_VERIF", None)
    r = subprocess.run([sys.executable, "-B", "-m", "pytest", "-q", "-p", "no:cacheprovider", "-p", "harness.suite_trace", "--timeout=30", "--continue-on-collection-errors", "test"],
                       cwd=d, env=env, text=True, capture_output=True, timeout=900)
    if not os.path.exists(out):
        raise tlc.TLCError("suite tracer produced no events:\n" + r.stdout[-2000:] + r.stderr[-2000:])
    events = [json.loads(ln) for ln in open(out)]
    stats = json.load(open(out + ".stats"))
    tail = r.stdout.strip().splitlines()[-1] if r.stdout.strip() else ""
    shutil.rmtree(d, ignore_errors=True)
    return events, stats, tail


def run_suite(ctx, prop):
    events, stats, tail = record(48 if ctx.quick else 160)
    for n, ev in enumerate(events):
        ev["tid"] = n + 1
    verdicts, vstats = tlc.validate("SuiteTrace.tla", "SuiteTrace.cfg", events, name=prop + "_suite")
    violations, clauses = [], {}
    for ev in events:
        for (_, cl) in verdicts[ev["tid"]]["fails"]:
            clauses[cl] = clauses.get(cl, 0) + 1
            if cl.startswith("P:" + prop + ":"):
                violations.append({"clause": cl, "op": f"{ev['cls']}.{ev['m']}", "where": "suite:" + ev["test"].split("::")[-1], "step": ev["seq"], "detail": {"exc": ev["exc"]},
                                   "behaviour": {"suite_event": {k: ev[k] for k in ("test", "cls", "m", "exc", "ops", "hasres", "res", "rt")}}})
    return {"states": vstats["distinct"], "transitions": vstats["generated"], "traces": len(set(ev["test"] for ev in events)), "evaluations": len(events),
            "distinct_nontrivial": len(set((ev["cls"], ev["m"]) for ev in events)), "violations": violations, "clauses": clauses, "deviations": [],
            "samples": [], "suite": {"pytest": tail, **stats, "methods_seen": len(set((ev["cls"], ev["m"]) for ev in events))}}


def replay_suite(ctx, prop, rec):
    """a suite violation is replayed by re-judging the recorded event (the event is what the implementation did during the named test)"""
    ev = dict(rec["behaviour"]["suite_event"])
    ev["tid"] = 1
    ev["seq"] = rec.get("step", 1)
    verdicts, _ = tlc.validate("SuiteTrace.tla", "SuiteTrace.cfg", [ev], name=prop + "_suite_replay", shards=1)
    bad = [f for f in verdicts[1]["fails"] if f[1].startswith("P:" + prop)]
    print(json.dumps(verdicts[1]["fails"]))
    if bad:
        print(f"VIOLATION property={prop} replay=(replayed)")
    return 1 if bad else 0
