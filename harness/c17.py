"""C17 - buffer traffic models charge exactly what their policy implies"""
from . import tlc, family

NAMES = ["M", "N", "K"]


def gen_rows(rng, L, ncoords=5, maxrows=10, writes=False, shape=5):
    """rows of a well-formed trace of an L-deep loop nest, traced at the innermost rank: sorted stamps, one row per access, distinct points"""
    rows = []

    def rec(level, stamp, coords):
        if len(rows) >= maxrows:
            return
        cs = sorted(rng.sample(range(ncoords), rng.randint(1, 3 if level < L - 1 else min(4, ncoords))))
        for i, c in enumerate(cs):
            if len(rows) >= maxrows:
                return
            if level == L - 1:
                pos = c if not (writes and rng.random() < 0.25) else shape + rng.randint(0, 2)     # some writes address the staging area
                rows.append({"stamp": stamp + [i], "coords": coords + [c], "pos": pos, "w": 1 if writes else 0})
            else:
                rec(level + 1, stamp + [i], coords + [c])
    rec(0, [], [])
    return rows


def mk_case(rng, kind, quick):
    L = rng.choice([1, 2, 2, 3])
    order = NAMES[-L:]
    outer = [r for r in order[:-1] if rng.random() < 0.5]
    tranks = outer + [order[-1]]
    mask = [1 if r in tranks else 0 for r in order]
    epl = rng.choice([1, 2, 4])
    wide = rng.random() < 0.3                 # positions and coordinates with two digits
    shape = 16 if wide else 5
    rows_r = gen_rows(rng, L, ncoords=14 if wide else 5, maxrows=rng.randint(3, 10), shape=shape)
    c = {"kind": kind, "order": order, "tranks": tranks, "mask": mask, "epl": epl, "shape": shape, "rows_r": rows_r, "rows_w": [],
         "slack": rng.choice([0, 0, 8, 16, 24])}
    if kind == "buffet":
        ev = rng.choice(["root"] + order[:-1])
        c["ev"] = ev
        c["evn"] = 0 if ev == "root" else order.index(ev) + 1
        if rng.random() < 0.5:
            # writes: a subset of the read points plus staged ones, at stamps of their own (a write follows the read of the same iteration)
            c["rows_w"] = [dict(r, w=1, pos=(r["pos"] if rng.random() < 0.7 else shape + rng.randint(0, 2))) for r in rows_r if rng.random() < 0.6]
        c["staged"] = 1 if c["rows_w"] else 0
        c["caps"] = [rng.choice([0, 1, 2, 100]) * epl * 32]
    else:
        c["ev"] = "root"
        c["evn"] = 0
        c["staged"] = 0
        if rng.random() < 0.5:
            # read-modify-write traffic: a write follows the read of the same iteration, to the same element or to the insertion staging area
            # (positions >= the shape; the shape is a multiple of every line size so that staging lines hold no regular element)
            # (a multiple of every line size, so that staging lines hold no regular element; a line that straddles the end of the rank is exercised by
            # mk_straddle in the one pattern whose meaning is clear: first touched by a staging write, then written at a regular position)
            c["shape"] = shape = 16 if wide else 8
            c["rows_w"] = [dict(r, w=1, pos=(r["pos"] if rng.random() < 0.7 else shape + rng.randint(0, 2))) for r in rows_r if rng.random() < 0.6]
            c["staged"] = 1 if c["rows_w"] else 0
        lines = [0, 0.5, 1, 1.5, 2, 3, 8]
        c["caps"] = [int(x * epl * 32) for x in lines]
    return c


def mk_window(rng):
    """buffet traffic of a tensor that lacks the OUTER loop rank, evicted on the middle rank of a three-deep nest: the same line at the same position of the
    evict-on rank, but in another outer iteration, lies in another window"""
    order = NAMES[-3:]
    tranks = rng.choice([[order[1], order[2]], [order[2]]])
    epl = rng.choice([1, 2])
    shape = 5
    rows_r = gen_rows(rng, 3, ncoords=5, maxrows=rng.randint(6, 12), shape=shape)
    c = {"kind": "buffet", "order": order, "tranks": tranks, "mask": [1 if r in tranks else 0 for r in order], "epl": epl, "shape": shape, "rows_r": rows_r, "rows_w": [],
         "slack": 0, "ev": order[1], "evn": 2, "staged": 0, "caps": [rng.choice([1, 2, 100]) * epl * 32]}
    if rng.random() < 0.4:
        c["rows_w"] = [dict(r, w=1) for r in rows_r if rng.random() < 0.6]
    return c


def mk_straddle(rng):
    """cache traffic in which a line straddles the end of the rank: its first touch is a write to the insertion staging area (the line is pinned), a later
    write addresses a regular element of the same line (which has to be written back)"""
    epl = rng.choice([2, 4])
    shape = 7
    base = (shape // epl) * epl                 # first position of the straddling line
    reg = rng.randint(base, shape - 1)          # a regular position in it
    pts = [rng.randint(0, base - 1), reg, rng.randint(0, base - 1), reg, rng.randint(0, 6)]
    rows_r = [{"stamp": [i], "coords": [p], "pos": p, "w": 0} for i, p in enumerate(pts)]
    rows_w = [dict(rows_r[0], w=1, pos=shape + rng.randint(0, epl - (shape - base) - 1)), dict(rows_r[1], w=1, pos=reg)]
    if rng.random() < 0.5:
        rows_w.append(dict(rows_r[3], w=1, pos=rng.choice([reg, shape])))
    lines = [0, 0.5, 1, 1.5, 2, 3, 8]
    return {"kind": "cache", "order": NAMES[-1:], "tranks": NAMES[-1:], "mask": [1], "epl": epl, "shape": shape, "rows_r": rows_r, "rows_w": rows_w,
            "slack": 0, "ev": "root", "evn": 0, "staged": 1, "caps": [int(x * epl * 32) for x in lines]}


def mk_buffet2(rng):
    """one tensor A[M, K] with both of its ranks bound (different payload widths, hence different elements per line), the inner binding listed first"""
    shape = 12
    ms = sorted(rng.sample(range(shape), rng.randint(2, 5)))
    rows_m = [{"stamp": [i], "coords": [m], "pos": m, "w": 0} for i, m in enumerate(ms)]
    rows_k = []
    for i, m in enumerate(ms):
        for j, k in enumerate(sorted(rng.sample(range(shape), rng.randint(1, 4)))):
            rows_k.append({"stamp": [i, j], "coords": [m, k], "pos": k, "w": 0})
    evk = rng.choice(["M", "root"])
    return {"kind": "buffet2", "order": ["M", "K"], "shape": shape, "evk": evk, "rows_r": [], "rows_w": [],
            "parts": [{"rows": rows_m, "mask": [1], "epl": 4, "evn": 0}, {"rows": rows_k, "mask": [1, 1], "epl": 2, "evn": 1 if evk == "M" else 0}]}


def mk_filter(rng):
    L = 2
    order = NAMES[-2:]
    wide = rng.random() < 0.5          # coordinates with one and two digits (points are compared as numbers, not as CSV text)
    rows = gen_rows(rng, L, ncoords=14 if wide else 5, maxrows=10 if wide else 8, shape=14 if wide else 5)
    forder = order + ["Z"]
    rows_f = []
    for r in rows:
        if rng.random() < 0.6:
            for j, z in enumerate(sorted(rng.sample(range(13 if wide else 4), rng.randint(1, 2)))):
                rows_f.append({"stamp": r["stamp"] + [j], "coords": r["coords"] + [z], "pos": z, "w": 0})
    return {"kind": "filter", "order": order, "forder": forder, "rows_r": rows, "rows_w": [], "rows_f": rows_f}


def mk_combine(rng):
    L = rng.choice([1, 2])
    order = NAMES[-L:]
    rows = gen_rows(rng, L, maxrows=8)
    rows_w = [dict(r, w=1) for r in rows if rng.random() < 0.5]
    # writes of an iteration carry the stamp of the NEXT position in the innermost loop (as populate does), so ties and interleavings occur
    for r in rows_w:
        if rng.random() < 0.5:
            r["stamp"] = r["stamp"][:-1] + [r["stamp"][-1] + 1]
    return {"kind": "combine", "order": order, "rows_r": rows, "rows_w": rows_w}


def run(ctx):
    rng = ctx.rng
    cfg = tlc.write_cfg("MC_Buffer_run.cfg", f"CONSTANTS\n N = {5 if ctx.quick else 6}\n NL = 3\nINIT Init\nNEXT Next\nINVARIANT DesignOK\nCHECK_DEADLOCK FALSE\n")
    r = tlc.model_check("MC_Buffer.tla", cfg, workers=12)
    design = [family.design_entry("MC_Buffer", "buffet", r, "exhaustive: operational buffet (keep a line while its next use lies in the same window) = declarative fills / "
                                  "write-backs for every read/write trace of the scope, every eviction window and line size; bounds", ["DesignOK"])]
    for rw, nn in ((0, 6 if ctx.quick else 7), (1, 5 if ctx.quick else 6)):
        cfgc = tlc.write_cfg(f"MC_Cache_{rw}.cfg", f"CONSTANTS\n N = {nn}\n NL = 3\n RW = {rw}\nINIT Init\nNEXT Next\nINVARIANT DesignOK\nCHECK_DEADLOCK FALSE\n")
        rc = tlc.model_check("MC_Cache.tla", cfgc, name=f"cache{rw}", workers=4)
        design.append(family.design_entry("MC_Cache", "read traces" if rw == 0 else "read/write traces", rc,
                                          "exhaustive: furthest-next-use with bypass = least fills over ALL replacement schedules (read traces); with writes: fills only for "
                                          "read misses, every dirty line drained at least once, nothing resident at the end, overflow only through pinned lines", ["DesignOK"]))
        r["stats"]["distinct"] += rc["stats"]["distinct"]
        r["stats"]["generated"] += rc["stats"]["generated"]
    n = 250 if ctx.quick else 5000
    cases = [mk_case(rng, "buffet", ctx.quick) for _ in range(n)] + [mk_case(rng, "cache", ctx.quick) for _ in range(n)]
    cases += [mk_straddle(rng) for _ in range(12 if ctx.quick else 200)]
    cases += [mk_window(rng) for _ in range(40 if ctx.quick else 600)]
    cases += [mk_filter(rng) for _ in range(n // 3)] + [mk_combine(rng) for _ in range(n // 3)] + [mk_buffet2(rng) for _ in range(n // 3)]
    part = family.run_family(ctx, "C17", cases, "harness.exec_buffer", "BufferTrace.tla", "BufferTrace.cfg",
                             op_of=lambda c, lg, st: c["kind"], where_of=lambda c, lg, st: where(c))
    # the optimality oracle: exhaustive replacement search for every (cache case, capacity)
    logs = family.execute_all("harness.exec_buffer", "execute", [c for c in cases if c["kind"] == "cache"])
    recs = []
    meta = {}
    for lg in logs:
        if lg.get("timeout") or lg["exc"] != "ok" or lg["rows_w"]:
            continue
        for res in lg["res"]:
            if res["exc"] != "ok" or res["read"] % lg["line_sz"] != 0:
                part["violations"].append({"clause": "P:C17:cache-optimal", "op": "cache", "where": "not-a-multiple-of-the-line", "step": 1, "detail": {"exc": res["exc"]},
                                           "behaviour": {k: lg[k] for k in ("kind", "order", "tranks", "mask", "epl", "shape", "rows_r", "rows_w", "ev", "evn", "staged", "caps")}})
                continue
            tid = len(recs) + 1
            recs.append({"tid": tid, "mask": lg["mask"], "epl": lg["epl"], "shape": lg["shape"], "rows_r": lg["rows_r"], "caplines": res["cap"] // lg["line_sz"],
                         "replines": res["read"] // lg["line_sz"]})
            meta[tid] = (lg, res)
    prints, sstats = tlc.search("CacheSearch.tla", "CacheSearch.cfg", recs, "C17")
    verdict = {}
    for p in prints:
        if isinstance(p, dict) and "tid" in p:
            verdict.setdefault(p["tid"], set()).add(p["v"])
    for tid, (lg, res) in meta.items():
        v = verdict.get(tid, set())
        if "WITNESS" not in v or "BELOW" in v:
            part["violations"].append({"clause": "P:C17:cache-optimal", "op": "cache", "where": "charged-too-much" if "BELOW" in v else "charged-too-little", "step": 1,
                                       "detail": {"exc": "ok", "cap": res["cap"], "read": res["read"]},
                                       "behaviour": {k: lg[k] for k in ("kind", "order", "tranks", "mask", "epl", "shape", "rows_r", "rows_w", "ev", "evn", "staged", "caps")}})
    part["states"] += sstats["distinct"]
    part["transitions"] += sstats["generated"]
    part["evaluations"] += len(recs)
    res = {"design": design + [{"module": "CacheSearch", "cfg": "per (trace, capacity)", "ok": True, "states": sstats["distinct"], "generated": sstats["generated"],
                                "mode": "exhaustive search over replacement schedules with bypass, pruned at the reported charge", "invariants": ["WITNESS exists", "no BELOW"]}],
           "states": r["stats"]["distinct"], "transitions": r["stats"]["generated"], "exhaustive": False,
           "rule": "a case is a well-formed synthetic trace (1-3 loop ranks, the tensor owning any subset of the outer ranks, 3-10 accesses over 5 coordinates, optional write trace "
                   "with staged positions) fed to the real buffetTraffic (evict-on root or any outer rank, line sizes 1/2/4 elements) or cacheTraffic (capacities 0 to 8 lines "
                   "incl. non-multiples of the line) or filterTrace / _combineTraces; each cache charge is verified by TLC's exhaustive replacement search",
           "assumptions": ["well-formed traces in the sense of C16 (sorted, one row per access, distinct points)", "the exhaustive replacement search judges read traces; with writes the charge is compared with the furthest-next-use policy (FTBuffer.CacheOp), writes following the read of the same iteration",
                           "evict-on names root or an outer rank of the binding"],
           "scope": {"cases": len(cases), "cache_searches": len(recs)}}
    return family.merge(res, part)


def where(c):
    if c["kind"] in ("filter", "combine", "buffet2"):
        return c["kind"]
    return f"L{len(c['order'])}:epl{c['epl']}:" + ("rw" if c["rows_w"] else "ro")


def replay(ctx, rec):
    return family.replay_family(ctx, "C17", rec, "harness.exec_buffer", "BufferTrace.tla", "BufferTrace.cfg")
