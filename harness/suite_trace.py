"""pytest plugin (no change to the repository): records one event per OUTERMOST public call on Fiber / Tensor made while the repository's own
test-suite runs - the projected abstract state of the receiver, of every Fiber / Tensor argument and of the result, before and after
the call.  The events are validated by spec/SuiteTrace.tla (C01 well-formedness, C02 rank mirror, C10 operands untouched): the existing
tests drive the implementation through far more call sequences than their assertions look at.

  cd <scratch copy holding test/> && PYTHONPATH=/verif python -m pytest -p harness.suite_trace test

Environment: VERIF_REPO (tree under test), VERIF_SUITE_OUT (ndjson file), VERIF_SUITE_MAXNODES (size cap, default 48)."""
import functools
import json
import os
import sys

sys.path.insert(0, os.environ.get("VERIF_REPO", "/repo"))
from fibertree import Fiber, Payload, Tensor  # noqa: E402
from fibertree.core.rank import Rank  # noqa: E402
from harness import proj  # noqa: E402

MAXN = int(os.environ.get("VERIF_SUITE_MAXNODES", "48"))
OUT = os.environ.get("VERIF_SUITE_OUT", "/dev/null")
PER_TEST = int(os.environ.get("VERIF_SUITE_PER_TEST", "150"))
PER_METHOD = int(os.environ.get("VERIF_SUITE_PER_METHOD", "25"))
_count = {}
_depth = [0]
_events = []
_test = ["?"]
_stats = {"calls": 0, "recorded": 0, "skipped_big": 0, "skipped_shape": 0}

DUNDERS = ["__add__", "__radd__", "__iadd__", "__mul__", "__rmul__", "__imul__", "__and__", "__or__", "__xor__", "__sub__", "__lshift__", "__ilshift__",
           "__eq__", "__ne__", "__len__", "__getitem__", "__setitem__", "__iter__", "__reversed__", "__str__", "__repr__", "__bool__", "__contains__",
           "__copy__", "__deepcopy__"]


def small(obj):
    """cheap size test with early exit"""
    n = [0]

    def rec(f, d):
        if d > 8:
            return False
        try:
            cs, ps = f.coords, f.payloads
        except Exception:  # noqa: BLE001
            return False
        if not isinstance(cs, list) or not isinstance(ps, list):
            return False
        n[0] += len(cs) + 1
        if n[0] > MAXN:
            return False
        for p in ps:
            if isinstance(p, Fiber) and not rec(p, d + 1):
                return False
        return True
    if isinstance(obj, Tensor):
        r = obj._root
        return rec(r, 0) if isinstance(r, Fiber) else True
    return rec(obj, 0)


def has_x(t):
    if isinstance(t, dict):
        if t.get("k") == "X":
            return True
        return any(has_x(v) for v in t.values())
    if isinstance(t, list):
        return any(has_x(v) for v in t)
    return False


def snap(obj):
    """-> projected state or None (lazy fibers, big or unprojectable objects)"""
    try:
        if isinstance(obj, Fiber):
            if obj.isLazy() or not small(obj):
                return None
            p = {"t": "F", "s": {"rank0": 0, "root": proj.proj_fiber(obj, None, None, "int"), "ranks": []}, "owned": 0 if getattr(obj, "_owner", None) is None else 1}
        elif isinstance(obj, Tensor):
            if not small(obj):
                return None
            p = {"t": "T", "s": proj.proj_tensor(obj, None, "int"), "owned": 0}
        else:
            return None
    except Exception:  # noqa: BLE001
        return None
    return p


def wrap(cls, name, fn):
    @functools.wraps(fn)
    def w(*args, **kw):
        # only calls made by test code count: calls from inside the package (also from its generators, which run at depth 0) are internal steps
        if _depth[0] > 0 or sys._getframe(1).f_globals.get("__name__", "").startswith("fibertree"):
            return fn(*args, **kw)
        _stats["calls"] += 1
        # bounded recording: at most PER_TEST events per test and PER_METHOD per (test, method)
        key = (_test[0], cls.__name__, name)
        if _count.get(_test[0], 0) >= PER_TEST or _count.get(key, 0) >= PER_METHOD:
            _stats["skipped_cap"] = _stats.get("skipped_cap", 0) + 1
            return fn(*args, **kw)
        objs = [a for a in list(args) + list(kw.values()) if isinstance(a, (Fiber, Tensor))]
        # lists of fibers (static co-iterators)
        for a in args:
            if isinstance(a, (list, tuple)):
                objs += [x for x in a if isinstance(x, (Fiber, Tensor))]
        _depth[0] += 1            # before the snapshots: the projection itself calls public methods
        pres = [snap(o) for o in objs]
        exc = "ok"
        res = None
        try:
            res = fn(*args, **kw)
            return res
        except BaseException as ex:  # noqa: B036
            exc = type(ex).__name__
            raise
        finally:
            try:
                posts = [snap(o) for o in objs]
                rs = snap(res) if isinstance(res, (Fiber, Tensor)) and not any(res is o for o in objs) else None
                ops = []
                for k, (a, b) in enumerate(zip(pres, posts)):
                    if a is not None and b is not None:
                        ops.append({"pre": a["s"], "post": b["s"], "t": a["t"], "owned": a["owned"], "self": 1 if (k == 0 and args and objs and objs[0] is args[0]) else 0})
                if ops or rs is not None:
                    ev = {"test": _test[0], "cls": cls.__name__, "m": name, "exc": exc, "ops": ops, "hasres": 0, "res": {"rank0": 0, "root": {"k": "F", "e": [], "nc": 0, "np": 0, "o": -1}, "ranks": []}, "rt": "-"}
                    if rs is not None:
                        ev.update({"hasres": 1, "res": rs["s"], "rt": rs["t"]})
                    if has_x(ev):
                        _stats["skipped_shape"] += 1
                    else:
                        _events.append(ev)
                        _count[_test[0]] = _count.get(_test[0], 0) + 1
                        _count[key] = _count.get(key, 0) + 1
                        _stats["recorded"] += 1
                else:
                    _stats["skipped_big"] += 1
            except Exception:  # noqa: BLE001
                pass
            finally:
                _depth[0] -= 1
    return w


def install():
    for cls in (Fiber, Tensor):
        for name, attr in list(vars(cls).items()):
            if name.startswith("_") and name not in DUNDERS:
                continue
            if isinstance(attr, staticmethod):
                setattr(cls, name, staticmethod(wrap(cls, name, attr.__func__)))
            elif isinstance(attr, classmethod):
                f = attr.__func__
                setattr(cls, name, classmethod(wrap(cls, name, f)))
            elif callable(attr) and not isinstance(attr, type):
                setattr(cls, name, wrap(cls, name, attr))


def pytest_configure(config):
    install()


def pytest_runtest_setup(item):
    _test[0] = item.nodeid


def pytest_sessionfinish(session, exitstatus):
    with open(OUT, "w") as fh:
        for n, ev in enumerate(_events):
            ev["seq"] = n + 1
            fh.write(json.dumps(ev) + "\n")
    with open(OUT + ".stats", "w") as fh:
        json.dump(_stats, fh)
