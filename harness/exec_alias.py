"""Executor for C10: value-returning operations (operand untouched, no shared mutable parts, later mutations invisible) and
read-only observers (tree and rank lists untouched, rendering deterministic)."""
import contextlib
import copy
import hashlib
import io
import os
import sys

sys.path.insert(0, __import__("os").environ.get("VERIF_REPO", "/repo"))
from fibertree import Fiber, Payload, Tensor  # noqa: E402
from fibertree.model.format import Format  # noqa: E402
from . import proj  # noqa: E402

IDS = ["K", "M", "N", "P"]
ROOT = os.path.dirname(os.path.dirname(os.path.abspath(__file__)))


def pj(obj, oids):
    if isinstance(obj, Tensor):
        r = proj.proj_tensor(obj, oids, mode="seqflat")
        # the leaf default as every reader of an unwritten point sees it
        with contextlib.suppress(Exception):
            r["dflt"] = repr(Payload.get(obj.getDefault()))
        # the declarations a tensor carries besides its tree: per-rank formats, shape, rank ids, name, mutability (as text)
        with contextlib.suppress(Exception):
            r["decl"] = repr([[obj.getFormat(x) for x in obj.getRankIds()], obj.getShape(authoritative=True), obj.getRankIds(), obj.getName(), obj.isMutable()])
        return r
    return {"rank0": 0, "root": proj.proj_fiber(obj, None, oids, mode="seqflat"), "ranks": [], "dflt": repr(Payload.get(obj.getDefault())) if not isinstance(Payload.get(obj.getDefault()), type) else "Fiber"}


def idsets(obj, oids, keep):
    s = proj.oid_sets(obj)
    out = {}
    for k, v in s.items():
        out[k] = sorted(oids.m[i] if i in oids.m else _intern(oids, i, obj, keep) for i in v)
    return out


def _intern(oids, pyid, obj, keep):
    # ids of parts that the projection did not visit (ranks' attrs, unowned attrs): intern by python id; objects are kept alive by `keep`
    oids.m[pyid] = len(oids.m) + 1
    return oids.m[pyid]


def first_box(f):
    for p in f.payloads:
        if isinstance(p, Fiber):
            b = first_box(p)
            if b is not None:
                return b
        elif isinstance(p, Payload):
            return p
    return None


def leaf_fiber(f):
    while f.payloads and isinstance(f.payloads[0], Fiber):
        f = f.payloads[0]
    return f


def mutate(obj):
    """a burst of public mutations of a tensor / fiber"""
    root = obj.getRoot() if isinstance(obj, Tensor) else obj
    if not isinstance(root, Fiber):
        return
    b = first_box(root)
    if b is not None:
        b <<= 99
        b += 1
    # a caller that takes the default and accumulates into it (the default is handed out by value)
    with contextlib.suppress(Exception):
        dv = obj.getDefault()
        if isinstance(dv, Payload):
            dv += 1
    for f in (root, leaf_fiber(root)):
        with contextlib.suppress(Exception):
            dv = f.getDefault()
            if isinstance(dv, Payload):
                dv += 1
    lf = leaf_fiber(root)
    if lf.coords and isinstance(lf.coords[-1], int) and not isinstance(lf.payloads[-1], Fiber):
        lf.append(lf.coords[-1] + 50, 5)
    if isinstance(obj, Tensor):
        rid = obj.getRankIds()[-1]
        with contextlib.suppress(Exception):
            obj.setFormat(rid, "U" if obj.getFormat(rid) == "C" else "C")
        with contextlib.suppress(Exception):
            obj.setDefault(3)
        with contextlib.suppress(Exception):
            obj.setMutable(not obj.isMutable())
    else:
        with contextlib.suppress(Exception):
            root.getRankAttrs().setShape(77)


def prep(case, t):
    """the operand a case speaks about: for the unflatten operations a tensor whose rank d holds tuple coordinates (built by flattening ranks d, d+1)"""
    if case["op"] in ("rawDeepcopy", "rawCopy"):
        # a raw fiber that belongs to no tensor (also an empty one): its attribute record is its own
        return proj.build_fiber(case["tree"], default=case.get("fdflt", 0))
    if case["op"] in ("unflatten", "fiberUnflatten"):
        return t.flattenRanks(depth=case.get("d", 0), levels=1, coord_style="tuple")
    if case.get("flat"):
        # an operand whose top rank holds tuple coordinates (read-only operations on transformed tensors)
        return t.flattenRanks(depth=0, levels=1, coord_style=case["flat"])
    return t


def value_op(op, t, t2, case):
    d = case.get("d", 0)
    root = t.getRoot() if isinstance(t, Tensor) else t
    if op == "splitUniform":
        return t.splitUniform(case["step"], depth=d)
    if op == "splitNonUniform":
        return t.splitNonUniform([0, case["step"]], depth=d)
    if op == "splitEqual":
        return t.splitEqual(case["step"], depth=d)
    if op == "splitUnEqual":
        return t.splitUnEqual([1, case["step"]], depth=d)
    if op == "fiberSplitUniform":
        return root.splitUniform(case["step"], depth=d)
    if op == "truediv":
        return root / 2
    if op == "floordiv":
        return root // 2
    if op == "swizzle":
        return t.swizzleRanks(list(reversed(t.getRankIds())))
    if op == "swizzlePartial":
        ids = list(t.getRankIds())
        k = case.get("d", 0)
        return t.swizzleRanks(ids[:k] + [ids[k + 1], ids[k]] + ids[k + 2:])      # the trailing (or leading) ranks stay in place
    if op == "swap":
        return t.swapRanks(depth=d)
    if op == "flatten":
        return t.flattenRanks(depth=d, levels=1, coord_style=case.get("style", "tuple"))
    if op == "fiberFlatten":
        return root.flattenRanks(depth=d, levels=1, style=case.get("style", "tuple"))
    if op == "unflatten":       # the operand was flattened by prep()
        return t.unflattenRanks(depth=d, levels=1)
    if op == "fiberUnflatten":
        return root.unflattenRanks(levels=1)
    if op == "merge":
        return t.mergeRanks(depth=d, levels=1, coord_style="absolute")
    if op == "updateCoords":
        return t.updateCoords(lambda i, c, p: c + 1, depth=d)
    if op == "updatePayloads":
        return t.updatePayloads(lambda i, c, p: Payload(Payload.get(p) + 1), depth=len(t.getRankIds()) - 1)
    if op == "add":
        return root + t2.getRoot()
    if op == "mul":
        return root * t2.getRoot()
    if op == "addscalar":
        return root + 2
    if op == "mulscalar":
        return root * 2
    if op == "copy":
        return root.copy()
    if op == "deepcopy":
        return copy.deepcopy(t)
    if op == "fiberDeepcopy":
        return copy.deepcopy(root)
    if op == "rawDeepcopy":         # t is a raw (unowned) fiber here
        return copy.deepcopy(t)
    if op == "rawCopy":
        return t.copy()
    if op == "prune":            # "create a new fiber by pruning": keeps every other element
        return root.prune(lambda i, c, p: i % 2 == 0)
    if op == "project":
        return root.project(trans_fn=lambda c: c + case["step"])
    if op == "getRange":         # deprecated front end of project(interval=)
        return root.getRange(0, size=4 + case["step"])
    if op == "nonEmpty":
        return root.nonEmpty()
    if op == "fromFiberOwned":
        return Tensor.fromFiber(rank_ids=t.getRankIds(), fiber=root)
    raise ValueError(op)


def digest(img):
    return hashlib.sha1(img.im.tobytes()).hexdigest() + ":%dx%d" % img.im.size


def observe(op, t, t2):
    root = t.getRoot()
    depth = len(t.getRankIds())
    d1 = d2 = ""
    if op == "getPayload":
        for pt in ([0], [9], [0] * depth, [1] * depth, [9] * depth):
            t.getPayload(*pt[:depth])
            root.getPayload(pt[0], allocate=False, default=5)
    elif op == "iterate":
        for _ in root:
            pass
        list(root.iterOccupancy())
        list(root.iterShape())
        list(root.iterActive())
        list(root.iterActiveShape())
        list(root.iterRange(0, 2))
        list(root.iterRangeShape(0, 3, 2))
        list(reversed(root))
    elif op == "coiterate":
        o = t2.getRoot()
        for x in (root & o, root | o, root ^ o, root - o, Fiber.intersection(root, o, root), Fiber.union(root, o),
                  Fiber.intersection(root, o, style="leader-follower"), Fiber.coiterShape([root, o]), Fiber.coiterRangeShape([root, o], 0, 3)):
            for _ in x:
                pass
    elif op == "compare":
        _ = (t == t2), (t != t2), (root == t2.getRoot()), (t == t)
    elif op == "queries":
        _ = root.isEmpty(), t.countValues(), root.countValues(), len(root), root.minCoord(), root.maxCoord()
        _ = t.getShape(), t.getShape(authoritative=True), root.getShape(), root.estimateShape(), t.getDepth(), root.getDepth(), t.getRankIds(), root.getRankIds()
        _ = root.getCoords(), root.getPayloads(), root.getActive(), root.getDefault(), t.getDefault(), t.isMutable()
        _ = root.getPosition(0), root.getPosition(9)
        # item access by position: plain, negative, slices, through the tensor, nested keys; iteration protocol of the tensor itself
        if root.coords:
            _ = root[0], root[-1], root[0:2], root[::2], t[0], t[-1], t[0:1]
            if depth >= 2 and isinstance(root.payloads[0], Fiber) and root.payloads[0].coords:
                _ = root[0, 0], t[0, 0], root[0:1, 0]
        for _x in t:
            pass
        _ = list(reversed(t)), len(root), root.getDepth(), root.getRankIds()
    elif op == "print":
        _ = str(t), repr(t), f"{t}", str(root), repr(root), f"{root}", f"{root:n*}"
        with contextlib.redirect_stdout(io.StringIO()):
            t.print("x")
            root.print("y")
    elif op == "dump":
        _ = root.fiber2dict()
        d = os.path.join(ROOT, ".work", "yaml")
        os.makedirs(d, exist_ok=True)
        import tempfile
        fd, path = tempfile.mkstemp(suffix=".yaml", dir=d)
        os.close(fd)
        try:
            t.dump(path)
            root.dump(path)
        finally:
            os.unlink(path)
    elif op == "uncompress":
        _ = root.uncompress()
    elif op == "footprint":
        fm = Format(t, {rid: {"format": "C", "cbits": 2, "pbits": 3, "fhbits": 1, "rhbits": 1} for rid in t.getRankIds()})
        _ = fm.getTensor(), fm.getSubTree(), fm.getFiber(), [fm.getRank(r) for r in t.getRankIds()], fm.getRoot()
        fm2 = Format(t, {rid: {"format": "U"} for rid in t.getRankIds()})
        _ = fm2.getTensor(), fm2.getSubTree()
    elif op.startswith("render"):
        from fibertree import TreeImage, UncompressedImage, TensorImage
        cls = {"renderTree": TreeImage, "renderUncompressed": UncompressedImage, "renderTensor": TensorImage}[op.replace("HL", "")]
        hl = {}
        if op.endswith("HL") and root.coords:
            # highlights: a whole sub-tensor (a point shorter than the depth) and a full point
            c0 = root.coords[0]
            full = [c0]
            f = root
            while f.payloads and isinstance(f.payloads[0], Fiber):
                f = f.payloads[0]
                if not f.coords:
                    break
                full.append(f.coords[0])
            hl = {"PE": [(c0,)], "PE2": [tuple(full)]}
        kw = {"highlights": hl} if hl else {}
        if op.startswith("renderTensor"):
            d1 = digest(cls(t, style="tree+uncompressed", **kw))
            d2 = digest(cls(t, style="tree+uncompressed", **kw))
        else:
            d1 = digest(cls(t, **kw))
            d2 = digest(cls(t, **kw))
    else:
        raise ValueError(op)
    return d1, d2


def execute(case):
    oids = proj.Oids()
    out = {"tid": case["tid"], "kind": case["kind"], "op": case["op"], "exc": "ok"}
    try:
        depth = case["depth"]
        dfl = case.get("fdflt", 0)
        t = prep(case, proj.build_tensor(case["tree"], IDS[:depth], shape=[6] * depth, name="T", default=dfl))
        t2 = proj.build_tensor(case.get("tree2", case["tree"]), IDS[:depth], shape=[6] * depth, name="T2", default=dfl)
        if case.get("flat") and t2.getRoot().coords:
            t2 = prep(case, t2)
        if case.get("ufmt") is not None and case["kind"] == "observer":
            # a rank of the first operand is declared uncompressed (the second one keeps the default): declarations are part of the operand's state
            with contextlib.suppress(Exception):
                t.setFormat(t.getRankIds()[case["ufmt"] % len(t.getRankIds())], "U")
        keep = []
        out["pre"] = pj(t, oids)
        if case["kind"] == "observer":
            pre2 = pj(t2, oids)
            out["digest1"], out["digest2"] = observe(case["op"], t, t2)
            out["post"] = pj(t, oids)
            if pj(t2, oids) != pre2:
                out["post"] = {"second-operand-changed": 1}
            return out
        r = value_op(case["op"], t, t2, case)
        keep.append(r)
        out["post"] = pj(t, oids)
        out["res"] = pj(r, oids)
        out["op_ids"] = idsets(t, oids, keep)
        out["res_ids"] = idsets(r, oids, keep)
        if case["op"] in ("add", "mul"):
            o2 = idsets(t2, oids, keep)
            for k in out["op_ids"]:
                out["op_ids"][k] = sorted(set(out["op_ids"][k]) | set(o2[k]))
        # follow-up mutations on one side must be invisible on the other
        r_copy_view = out["res"]
        mutate(r)
        out["after_mut_res"] = {"operand": pj(t, oids)}
        # a fresh result for the second direction (the first one was just mutated)
        oids2 = oids
        t_b = prep(case, proj.build_tensor(case["tree"], IDS[:depth], shape=[6] * depth, name="T", default=dfl))
        t2_b = proj.build_tensor(case.get("tree2", case["tree"]), IDS[:depth], shape=[6] * depth, name="T2", default=dfl)
        r_b = value_op(case["op"], t_b, t2_b, case)
        before = pj(r_b, None)
        mutate(t_b)
        if case["op"] in ("add", "mul"):
            mutate(t2_b)
        after = pj(r_b, None)
        out["after_mut_op"] = {"result": out["res"] if after == before else {"changed": 1}}
    except BaseException as ex:  # noqa: B036
        out["exc"] = "err:" + type(ex).__name__ + ":" + str(ex)[:80]
    return out
