"""Executor for conversion cases (C13)."""
import json
import contextlib
import io
import os
import sys
import tempfile

sys.path.insert(0, __import__("os").environ.get("VERIF_REPO", "/repo"))
from fibertree import Fiber, Payload, Tensor  # noqa: E402
from . import proj  # noqa: E402

IDS = ["K", "M", "N", "P"]
ROOT = os.path.dirname(os.path.dirname(os.path.abspath(__file__)))


def tmpfile():
    d = os.path.join(ROOT, ".work", "yaml")
    os.makedirs(d, exist_ok=True)
    fd, path = tempfile.mkstemp(suffix=".yaml", dir=d)
    os.close(fd)
    return path


def shape_list(x):
    if x is None:
        return []
    if isinstance(x, int):
        return [x]
    return [list(s) if isinstance(s, tuple) else s for s in x]


def execute(case):
    out = {k: v for k, v in case.items()}
    out["exc"] = "ok"
    try:
        if case["kind"] == "nest":
            exec_nest(case, out)
        elif case["kind"] == "roundtrip":
            exec_roundtrip(case, out)
        else:
            exec_random(case, out)
    except BaseException as ex:  # noqa: B036
        out["exc"] = "err:" + type(ex).__name__ + ":" + str(ex)[:80]
    return out


def mapnest(n, fn):
    return [mapnest(x, fn) for x in n] if isinstance(n, list) else fn(n)


def exec_nest(case, out):
    proj.VALUE_MAP = proj.VALUE_MAPS.get(case.get("vmap", ""))
    try:
        _exec_nest(case, out)
    finally:
        proj.VALUE_MAP = None


def _exec_nest(case, out):
    nest0, d, depth = case["nest"], proj.real(case["d"]), case["depth"]
    nest = mapnest(nest0, proj.real)               # the real scalars standing for the abstract entries (identity without a value class)
    if case["via"] == "tensor":
        t = Tensor.fromUncompressed(IDS[:depth], nest, default=d)
        root = t.getRoot()
        out["shape"] = shape_list(t.getShape())
    else:
        root = Fiber.fromUncompressed(nest, default=d)
        out["shape"] = shape_list(root.getShape())
    out["tree"] = proj.proj_fiber(root)
    import json
    out["unc_s"], out["unc_exc"], out["nest_s"] = "", "ok", json.dumps(nest0, separators=(",", ":"))
    try:
        kw = {"shape": out["shape"]} if case.get("unc_shape", 1) else {}
        back = mapnest(root.uncompress(**kw), lambda v: proj.abstract(v) if proj.abstract(v) is not None else v)
        out["unc_s"] = json.dumps(back, separators=(",", ":"), default=repr)
    except BaseException as ex:  # noqa: B036
        out["unc_exc"] = "err:" + type(ex).__name__


def jtext(x):
    """canonical JSON text (tuples as lists): values of any shape and type can then be compared by the validator"""
    return json.dumps(x, separators=(",", ":"), default=repr)


def exec_roundtrip(case, out):
    depth, d = case["depth"], case.get("d", 0)
    out.update({"d": d, "load_exc": "ok", "eq": 0, "istensor": 0, "rank0": 0, "ids": "", "ids_back": "", "shape": "", "shape_back": "",
                "name": "", "name_back": "", "val": 0, "val_back": 0, "orig": {"k": "F", "e": []}, "back": {"k": "F", "e": []}})
    mode = "seqflat" if case.get("flatten") else "int"
    if case["obj"] == "rank0":
        t = Tensor.fromUncompressed([], case["val"])
        t.setName("scalar")
        out.update({"rank0": 1, "val": case["val"], "name": t.getName(), "istensor": 1})
        path = tmpfile()
        try:
            t.dump(path)
            try:
                with contextlib.redirect_stdout(io.StringIO()):
                    b = Tensor.fromYAMLfile(path)
                out["val_back"] = Payload.get(b.getRoot())
                out["name_back"] = b.getName()
                out["eq"] = 1
            except BaseException as ex:  # noqa: B036
                out["load_exc"] = "err:" + type(ex).__name__
        finally:
            os.unlink(path)
        return
    t = proj.build_tensor(case["tree"], IDS[:depth], shape=None if case.get("lateshape") else [4] * depth, default=d, name="TT")
    if case.get("lateshape"):
        # built without a shape, asked for its (estimated) shape, THEN given one: the declared shape is the tensor's shape from then on
        _ = t.getShape(), t.getShape(authoritative=True)
        t.setShape(list(case["lateshape"]))
    if case.get("flatten"):
        t = t.flattenRanks(depth=0, levels=case["flatten"], coord_style=case.get("fstyle", "tuple"))
    if case["obj"] == "tensor":
        out.update({"istensor": 1, "ids": jtext(t.getRankIds()), "shape": jtext(t.getShape()), "name": jtext(t.getName()),
                    "orig": proj.proj_fiber(t.getRoot(), mode=mode)})
        if case["via"] == "yaml":
            path = tmpfile()
            try:
                t.dump(path)
                try:
                    with contextlib.redirect_stdout(io.StringIO()):
                        # the two documented loaders: the class method and the (older) constructor form
                        b = Tensor(yamlfile=path, default=d) if case.get("loader") == "ctor" else Tensor.fromYAMLfile(path)
                    out.update({"ids_back": jtext(b.getRankIds()), "shape_back": jtext(b.getShape()),
                                "name_back": jtext(b.getName()), "back": proj.proj_fiber(b.getRoot(), mode=mode), "eq": 1 if (b == t and t == b) else 0})
                except BaseException as ex:  # noqa: B036
                    out["load_exc"] = "err:" + type(ex).__name__
            finally:
                os.unlink(path)
        return
    f = t.getRoot()
    out["orig"] = proj.proj_fiber(f, mode=mode)
    if case["via"] == "dict":
        try:
            b = Fiber.dict2fiber(f.fiber2dict())
            out.update({"back": proj.proj_fiber(b, mode=mode), "eq": 1 if (d != 0 or (b == f and f == b)) else 0})
        except BaseException as ex:  # noqa: B036
            out["load_exc"] = "err:" + type(ex).__name__
    else:
        path = tmpfile()
        try:
            f.dump(path)
            try:
                with contextlib.redirect_stdout(io.StringIO()):
                    b = Fiber.fromYAMLfile(path, default=d) if depth == 1 else Fiber.fromYAMLfile(path)
                out.update({"back": proj.proj_fiber(b, mode=mode), "eq": 1 if (d != 0 or (b == f and f == b)) else 0})
            except BaseException as ex:  # noqa: B036
                out["load_exc"] = "err:" + type(ex).__name__
        finally:
            os.unlink(path)


def exec_random(case, out):
    shape, dens, seed, interval = case["shape"], case["density"], case["seed"], case["interval"]
    if case["via"] == "tensor":
        t1 = Tensor.fromRandom(IDS[:len(shape)], shape, dens, interval, seed=seed)
        _ = Tensor.fromRandom(IDS[:len(shape)], [2] * len(shape), dens, interval, seed=seed + 1)      # something else in between
        t2 = Tensor.fromRandom(IDS[:len(shape)], shape, dens, interval, seed=seed)
        r1, r2 = t1.getRoot(), t2.getRoot()
    else:
        r1 = Fiber.fromRandom(shape, dens, interval, seed=seed)
        _ = Fiber.fromRandom([3] * len(shape), dens, interval, seed=seed + 7)
        r2 = Fiber.fromRandom(shape, dens, interval, seed=seed)
    out["t1"], out["t2"] = proj.strip(proj.proj_fiber(r1)), proj.strip(proj.proj_fiber(r2))
    vol = 1
    for s in shape:
        vol *= s
    out["volume"] = vol
    out["dense"] = 1 if all(x == 1.0 for x in dens) else 0
