"""C11 - arithmetic on boxes and on fibers agrees with arithmetic on the values"""
import itertools
from . import tlc, family
from .c07 import trees

INTS = [[n, 1] for n in (-2, -1, 0, 1, 2, 3)]
DYAD = [[1, 2], [3, 2], [-1, 4]]
ARITH = ["add", "sub", "mul", "truediv", "floordiv"]
CMP = ["eq", "ne", "lt", "le", "gt", "ge"]
BITS = ["lshift", "and", "or"]
INPL = ["iadd", "isub", "imul", "itruediv", "ilshift"]


def scalar_cases():
    out = []
    kinds = [("box", "box"), ("box", "scalar"), ("scalar", "box"), ("elem", "elem"), ("elem", "scalar"), ("scalar", "elem"), ("elem", "box"), ("box", "elem")]
    vals = INTS + DYAD
    for lk, rk in kinds:
        for op in ARITH + CMP:
            for x, y in itertools.product(vals, vals):
                if op in ("truediv", "floordiv") and y[0] == 0:
                    continue
                if op == "truediv" and abs(y[0]) not in (1, 2):      # keep quotients exactly representable
                    continue
                out.append({"kind": "scalar", "op": op, "lk": lk, "rk": rk, "x": x, "y": y})
        # comparisons with the non-finite floats (NaN compares false with everything, also with itself)
        special = [[0, 0], [1, 0], [-1, 0]]
        for op in CMP:
            for x, y in itertools.product(special + [[0, 1], [3, 2], [-2, 1]], repeat=2):
                if x[1] == 0 or y[1] == 0:
                    out.append({"kind": "scalar", "op": op, "lk": lk, "rk": rk, "x": x, "y": y})
        for op in BITS:
            for x, y in itertools.product([[n, 1] for n in range(4)], repeat=2):
                out.append({"kind": "scalar", "op": op, "lk": lk, "rk": rk, "x": x, "y": y})
        if lk != "scalar":
            for op in INPL:
                for x, y in itertools.product(vals, vals):
                    if op == "itruediv" and abs(y[0]) not in (1, 2):
                        continue
                    out.append({"kind": "scalar", "op": op, "lk": lk, "rk": rk, "x": x, "y": y})
    return out


def fiber_cases(ctx):
    ts = trees(3, [0, 1, 2])
    out = []
    pairs = list(itertools.product(ts, ts))
    if ctx.quick:
        pairs = ctx.rng.sample(pairs, 700)
    for a, b in pairs:
        for op in ("add_ff", "mul_ff", "iadd_ff", "imul_ff"):
            out.append({"kind": "fiber", "op": op, "a": a, "b": b})
    e = {"k": "F", "e": []}
    for a in ts:
        for s in (0, 1, 2, -1):
            for op in ("add_fs", "radd_fs", "mul_fs", "rmul_fs", "iadd_fs", "imul_fs"):
                out.append({"kind": "fiber", "op": op, "a": a, "b": e, "s": s, "shape": 4})
                out.append({"kind": "fiber", "op": op, "a": a, "b": e, "s": s, "shape": 4, "d": 2})       # non-zero leaf default
                if s != 0 or op.startswith("i"):
                    # an active range narrower than the declared shape: scalar addition still ranges over the whole shape
                    out.append({"kind": "fiber", "op": op, "a": a, "b": e, "s": s, "shape": 5, "act": [0, 3]})
    for a, b in ctx.rng.sample(pairs, min(len(pairs), 300 if ctx.quick else 4096)):
        for op in ("add_ff", "mul_ff", "iadd_ff", "imul_ff"):
            out.append({"kind": "fiber", "op": op, "a": a, "b": b, "d": 2})
    # wide fibers: 9-16 stored elements, a sparse second operand whose new coordinates fall far from the previous match
    for _ in range(700 if ctx.quick else 6000):
        nc = ctx.rng.randint(12, 20)
        a = {"k": "F", "e": [[c, {"k": "L", "v": ctx.rng.choice([1, 2, 0])}] for c in range(nc) if ctx.rng.random() < 0.8]}
        b = {"k": "F", "e": [[c, {"k": "L", "v": ctx.rng.choice([1, 2])}] for c in range(nc + 2) if ctx.rng.random() < 0.2]}
        for op in ("add_ff", "mul_ff", "iadd_ff", "imul_ff"):
            out.append({"kind": "fiber", "op": op, "a": a, "b": b, "shape": nc + 3})
    # two-level fibers: + and * recurse into the sub-fibers
    from .c05 import rand_tree
    for _ in range(400 if ctx.quick else 6000):
        a = rand_tree(ctx.rng, 3, 2, pz=0.15, pabs=0.3)
        b = rand_tree(ctx.rng, 3, 2, pz=0.15, pabs=0.3)
        if not a["e"] or not b["e"]:
            continue              # an empty unowned fiber cannot know that it has two levels
        for op in ("add_ff", "mul_ff", "iadd_ff", "imul_ff"):
            out.append({"kind": "fiber2", "op": op, "a": a, "b": b, "shape": 4})
    return out


def where(c):
    if c["kind"] == "scalar":
        return f"{c['lk']}-{c['rk']}"
    tag = ""
    if c["kind"] == "fiber2":
        def empty(p):
            return p["v"] == 0 if p["k"] == "L" else all(empty(q) for _, q in p["e"])
        tb = {x for x, p in c["b"]["e"] if not empty(p)}
        if c["op"] == "imul_ff" and any(x not in tb for x, p in c["a"]["e"]):
            tag = ":a-outside-b"
        return "fiber2" + tag
    if c["op"] == "imul_ff":
        # class of the known finding on a *= b: a stores an element at a coordinate where b has nothing (it should be dropped, it is kept)
        d = c.get("d", 0)
        bc = {x for x, p in c["b"]["e"] if p["v"] != d}
        if any(x not in bc for x, p in c["a"]["e"]):
            tag = ":a-outside-b"
    return "fiber" + (":nonzero-default" if c.get("d") else "") + (":active" if c.get("act") else "") + tag


def run(ctx):
    cfg = tlc.write_cfg("MC_Arith_run.cfg", "CONSTANTS\n NC = 3\nINIT Init\nNEXT Next\nINVARIANT DesignOK\nCHECK_DEADLOCK FALSE\n")
    r = tlc.model_check("MC_Arith.tla", cfg, workers=4)
    design = [family.design_entry("MC_Arith", "fiber arithmetic", r, "exhaustive: union/intersection machines and the populate-based += give the declarative "
                                  "content for all 4096 fiber pairs; rational field laws of the oracle (ASSUME)", ["DesignOK", "ASSUME RationalLaws"])]
    cases = scalar_cases() + fiber_cases(ctx)
    part = family.run_family(ctx, "C11", cases, "harness.exec_arith", "ArithTrace.tla", "ArithTrace.cfg",
                             op_of=lambda c, lg, st: c["op"], where_of=lambda c, lg, st: where(c))
    res = {"design": design, "states": r["stats"]["distinct"], "transitions": r["stats"]["generated"], "exhaustive": not ctx.quick,
           "rule": "a case is one operator application (operator, operand kinds box/element/scalar on either side, values from {-2..3} and dyadic rationals) or one "
                   "fiber arithmetic operation (all fibers over 3 coordinates x {absent,0,1,2}, scalars {0,1,2,-1}); every case is distinct by construction",
           "assumptions": ["operator list = the one both class docstrings document (+ - * / // << & | comparisons, += -= *= /= <<=)",
                           "float operands are dyadic so that results are exact; inexact float arithmetic is outside the model",
                           "fiber arithmetic with integer values, leaf default 0"],
           "scope": {"scalar_cases": len([c for c in cases if c["kind"] == "scalar"]), "fiber_cases": len([c for c in cases if c["kind"] == "fiber"])}}
    return family.merge(res, part)


def replay(ctx, rec):
    return family.replay_family(ctx, "C11", rec, "harness.exec_arith", "ArithTrace.tla", "ArithTrace.cfg")
