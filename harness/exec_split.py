"""Executor for split cases (C08, also feeds C14 / C10 logs)."""
import sys

sys.path.insert(0, __import__("os").environ.get("VERIF_REPO", "/repo"))
from fibertree import Fiber, Payload, Tensor  # noqa: E402
from . import proj  # noqa: E402

IDS = ["K", "M", "N"]


def fibers_at(root, depth, path=()):
    if depth == 0:
        return [(list(path), root)]
    out = []
    for c, p in zip(root.coords, root.payloads):
        if isinstance(p, Fiber):
            out += fibers_at(p, depth - 1, path + (c,))
    return out


def depth_of(f):
    d = 0
    while isinstance(f, Fiber):
        d += 1
        if not f.payloads:
            return 99        # an empty fiber fits any depth
        f = f.payloads[0]
    return d


def act_of(f):
    a = f.getActive()
    return [int(a[0]), int(a[1])]


def call_split(obj, case, depth_kw):
    op = case["op"]
    kw = {"relativeCoords": bool(case.get("rel", 0)), "pre_halo": case.get("pre", 0), "post_halo": case.get("post", 0)}
    kw.update(depth_kw)
    if op == "uniform":
        return obj.splitUniform(case["step"], **kw)
    if op == "nonuniform":
        if case.get("splits_fiber"):
            # the boundaries given as a fiber (its coordinates are the boundaries, whatever it stores: explicit zeros included)
            sp = Fiber(list(case["splits"]), [(k % 2) for k in range(len(case["splits"]))])
            return obj.splitNonUniform(sp, **kw)
        return obj.splitNonUniform(list(case["splits"]), **kw)
    if op == "equal":
        return obj.splitEqual(case["step"], **kw)
    if op == "unequal":
        return obj.splitUnEqual(list(case["sizes"]), **kw)
    if op == "truediv":
        return obj / case["n"]
    if op == "floordiv":
        return obj // case["n"]
    raise ValueError(op)


def execute(case):
    oids = proj.Oids()
    out = {k: v for k, v in case.items() if k != "tree"}
    for k, d in (("step", 1), ("splits", []), ("sizes", []), ("pre", 0), ("post", 0), ("rel", 0), ("n", 1), ("dflt", 0)):
        out.setdefault(k, d)
    out.update({"exc": "ok", "units": [], "skel_ok": 1, "pre_t": {}, "post_t": {}})
    try:
        depth, sdepth, shape = case.get("depth", 1), case.get("sdepth", 0), case.get("shape", 8)
        if case["kind"] == "fiber":
            tree = case["tree"]
            f = proj.build_fiber(tree, default=case.get("dflt", 0), shape=[shape] * depth)
            if case.get("hasact"):
                f.setActive(tuple(case["act"]))
            src_root = f
            pj = lambda: proj.proj_fiber(f, None, oids)          # noqa: E731
            out["pre_t"] = pj()
            res_root = call_split(f, case, {"depth": sdepth} if sdepth else {})
        else:
            t = proj.build_tensor(case["tree"], IDS[:depth], shape=[shape] * depth)
            src_root = t.getRoot()
            pj = lambda: proj.proj_tensor(t, oids)               # noqa: E731
            out["pre_t"] = pj()
            if case.get("via") == "fiber":
                res_root = call_split(src_root, case, {"depth": sdepth})
            else:
                rt = call_split(t, case, {"depth": sdepth} if case["op"] not in ("truediv", "floordiv") else {})
                res_root = rt.getRoot()
                out["res_ids"] = [str(x) for x in rt.getRankIds()]
                out["res_shape"] = proj._shape(rt.getShape(authoritative=True)) if True else -1
        out["post_t"] = pj()
        srcs = fibers_at(src_root, sdepth)
        ress = fibers_at(res_root, sdepth)
        out["skel_ok"] = 1 if [p for p, _ in srcs] == [p for p, _ in ress] else 0
        for (p, sf), (_, uf) in zip(srcs, ress):
            unit = {"path": p, "e": [[c, proj.proj_payload(q)] for c, q in zip(sf.coords, sf.payloads)], "act": act_of(sf),
                    "shape": proj._shape(sf.getShape(all_ranks=False)), "ncoords": len(sf.coords), "res": [], "unsplit": 0}
            if sf.coords and proj.strip(proj.proj_fiber(uf)) == proj.strip(proj.proj_fiber(sf)):
                unit["unsplit"] = 1          # this fiber was not replaced by an upper/lower pair
                out["units"].append(unit)
                continue
            for b, lower in zip(uf.coords, uf.payloads):
                unit["res"].append({"c": b, "e": [[c, proj.proj_payload(q)] for c, q in zip(lower.coords, lower.payloads)], "act": act_of(lower),
                                    "iteract": [c for c, _ in lower.iterActive()], "iterocc": [c for c, _ in lower.iterOccupancy()]})
            out["units"].append(unit)
    except BaseException as ex:  # noqa: B036
        out["exc"] = "err:" + type(ex).__name__ + ":" + str(ex)[:80]
    return out


def execute_nested(case):
    """split, then split every lower fiber again (depth=1): logged as one unit per lower fiber of the first split, whose
    original is that lower fiber (with the active range the first split gave it) - partitions of partitions must tile it"""
    out = {k: v for k, v in case.items() if k != "tree"}
    out.update({"op": case["op2"], "step": case["step2"], "splits": [], "sizes": [], "pre": 0, "post": 0, "rel": 0, "n": 1, "dflt": 0,
                "exc": "ok", "units": [], "skel_ok": 1, "pre_t": {}, "post_t": {}})
    try:
        f = proj.build_fiber(case["tree"], shape=[case["shape"]])
        first = f.splitUniform(case["step"]) if case["op1"] == "uniform" else f.splitEqual(case["step"])
        second = first.splitUniform(case["step2"], depth=1) if case["op2"] == "uniform" else first.splitEqual(case["step2"], depth=1)
        out["skel_ok"] = 1 if list(first.coords) == list(second.coords) else 0
        for (b, lower), (_, upper2) in zip(zip(first.coords, first.payloads), zip(second.coords, second.payloads)):
            unit = {"path": [b], "e": [[c, proj.proj_payload(q)] for c, q in zip(lower.coords, lower.payloads)], "act": act_of(lower),
                    "shape": proj._shape(lower.getShape(all_ranks=False)), "ncoords": len(lower.coords), "res": [], "unsplit": 0}
            for b2, l2 in zip(upper2.coords, upper2.payloads):
                unit["res"].append({"c": b2, "e": [[c, proj.proj_payload(q)] for c, q in zip(l2.coords, l2.payloads)], "act": act_of(l2),
                                    "iteract": [c for c, _ in l2.iterActive()], "iterocc": [c for c, _ in l2.iterOccupancy()]})
            out["units"].append(unit)
    except BaseException as ex:  # noqa: B036
        out["exc"] = "err:" + type(ex).__name__ + ":" + str(ex)[:80]
    return out


def execute_any(case):
    return execute_nested(case) if case["op"] == "nested" else execute(case)
