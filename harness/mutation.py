"""Automatic mutation sweep (a development aid, not a registered check).

  python3 -m harness.mutation Cxx [--n 40] [--seed 0] [--jobs 12]

For property Cxx: one-token / one-statement mutants are generated inside the property's anchored line ranges (mapped from the pinned
base commit to /repo's HEAD), each is written to a scratch worktree under /tmp/mutwt (never to /repo), the repository's pinned suite is
run there, and for the mutants that keep all baseline tests passing (the ones the tests cannot see) `bin/check Cxx --tier quick` is run
with VERIF_REPO pointing at the scratch worktree.  The outcome is written to /verif/mutation/<Cxx>.json: killed / survived mutants with
the clause that caught them.  Survivors are either equivalent, outside the property, or a gap of the check: they are triaged by hand
(see DESIGN.md section 12.2)."""
import argparse
import concurrent.futures as cf
import difflib
import json
import os
import random
import re
import shutil
import subprocess
import sys
import xml.etree.ElementTree as ET

ROOT = os.path.dirname(os.path.dirname(os.path.abspath(__file__)))
BASE = "6095222"
WT = "/tmp/mutwt"


def sh(cmd, **kw):
    return subprocess.run(cmd, shell=True, text=True, capture_output=True, **kw)


def anchors(prop):
    for ln in open(os.path.join(ROOT, "properties.jsonl")):
        d = json.loads(ln)
        if d["id"] == prop:
            out = {}
            for m in d["anchors"]["mechanism"]:
                for part in m["where"].split(";"):
                    part = part.strip()
                    f, _, rs = part.partition(":")
                    for r in rs.split(","):
                        lo, _, hi = r.partition("-")
                        out.setdefault(f, []).append((int(lo), int(hi or lo)))
            return out
    raise SystemExit("no such property")


def map_lines(path, ranges):
    """line numbers of the base commit -> set of line numbers (1-based) in /repo HEAD's file"""
    base = sh(f"git -C /repo show {BASE}:{path}").stdout.splitlines()
    cur = sh(f"git -C /repo show HEAD:{path}").stdout.splitlines()          # the committed tree (the scratch worktrees are created from HEAD)
    sm = difflib.SequenceMatcher(None, base, cur, autojunk=False)
    m = {}
    for tag, i1, i2, j1, j2 in sm.get_opcodes():
        if tag == "equal":
            for k in range(i2 - i1):
                m[i1 + k + 1] = j1 + k + 1
        else:
            # changed region: map the whole base region onto the whole current region
            for k in range(i1, i2):
                m[k + 1] = None
            for k in range(j1, j2):
                m.setdefault(("new", k + 1), k + 1)
    want = set()
    for lo, hi in ranges:
        js = [m.get(k) for k in range(lo, hi + 1) if m.get(k)]
        if js:
            want.update(range(min(js), max(js) + 1))
    return sorted(want), cur


SUBS = [
    (r"(?<![<>=!])<=(?!=)", [" < "]), (r"(?<![<>=!])>=(?!=)", [" > "]),
    (r"(?<![<>=!\-])<(?![<=])", [" <= "]), (r"(?<![<>=!\-])>(?![>=])", [" >= "]),
    (r"==", ["!="]), (r"!=", ["=="]),
    (r"\band\b", ["or"]), (r"\bor\b", ["and"]),
    (r"\bnot\s+", [""]),
    (r"\bis not None\b", ["is None"]), (r"\bis None\b", ["is not None"]),
    (r"\bTrue\b", ["False"]), (r"\bFalse\b", ["True"]),
    (r"\+ 1\b", ["", "- 1", "+ 2"]), (r"- 1\b", ["", "+ 1", "- 2"]),
    (r"(?<![\w\)\]])0(?![\w\.])", ["1"]), (r"(?<![\w\)\]\.])1(?![\w\.])", ["0", "2"]),
    (r"\+=", ["-=", "="]), (r"-=", ["+="]),
    (r"\bbreak\b", ["continue"]), (r"\bcontinue\b", ["break"]),
    (r"\bmin\(", ["max("]), (r"\bmax\(", ["min("]),
    (r"\bbisect_left\b", ["bisect_right"]), (r"\bbisect_right\b", ["bisect_left"]),
    (r"(?<=\w) \+ (?=\w)", [" - "]), (r"(?<=\w) - (?=\w)", [" + "]),
    (r"(?<=\w) // (?=\w)", [" % "]), (r"\[:-1\]", ["[:]"]), (r"\[1:\]", ["[:]"]),
]
SIMPLE_STMT = re.compile(r"^(\s+)([\w\.\[\]\(\), \"']+ (?:[\+\-\*]?=) .+|del .+|[\w\.]+\(.*\)|[\w\.]+\.(?:append|add|remove|pop|insert|extend|clear)\(.*\))\s*$")


def candidates(path, lines, cur):
    out = []
    in_doc = False
    for ln in range(1, len(cur) + 1):
        text = cur[ln - 1]
        s = text.strip()
        q = s.count('"""') + s.count("'''")
        if in_doc:
            if q % 2 == 1:
                in_doc = False
            continue
        if q % 2 == 1:
            in_doc = True
            continue
        if ln not in lines or not s or s.startswith("#") or s.startswith(("def ", "class ", "import ", "from ", "@", "assert ", "raise ", "print(")) or q:
            continue
        code = text.split("#")[0] if '"' not in text and "'" not in text else text
        for pat, reps in SUBS:
            for mt in re.finditer(pat, code):
                for rep in reps:
                    new = code[:mt.start()] + rep + code[mt.end():]
                    if new != text:
                        out.append({"file": path, "line": ln, "old": text, "new": new, "op": pat})
        if SIMPLE_STMT.match(text) and not s.endswith((",", "(", "\\", "[", "{")) and s.count("(") == s.count(")"):
            ind = re.match(r"\s*", text).group(0)
            out.append({"file": path, "line": ln, "old": text, "new": ind + "pass", "op": "delete-statement"})
    return out


def compiles(path, cur, m):
    src = list(cur)
    src[m["line"] - 1] = m["new"]
    try:
        compile("\n".join(src) + "\n", path, "exec")
        return True
    except SyntaxError:
        return False


def baseline():
    return set(json.load(open("/root/.vp/BASELINE.json"))["stable_pass"])


def prepare_worktree(k):
    d = f"{WT}/w{k}"
    if os.path.isdir(d):
        sh(f"git -C /repo worktree remove --force {d}")
        shutil.rmtree(d, ignore_errors=True)
    r = sh(f"git -C /repo worktree add --detach {d} HEAD")
    if r.returncode != 0:
        raise SystemExit("cannot create worktree: " + r.stderr)
    return d


def run_suite(args):
    k, m, base = args
    d = f"{WT}/w{k}"
    sh(f"git -C {d} checkout -- . ")
    p = os.path.join(d, m["file"])
    src = open(p).read().splitlines()
    src[m["line"] - 1] = m["new"]
    open(p, "w").write("\n".join(src) + "\n")
    xml = f"{WT}/j{k}.xml"
    if os.path.exists(xml):
        os.remove(xml)
    # a mutant may loop for ever: own process group, killed as a whole after 5 minutes (the suite takes 15 s)
    import signal
    pr = subprocess.Popen(f"cd {d} && exec env -u FIBERTREE_VERIF /venv/bin/python -B -m pytest -q -p no:cacheprovider --timeout=60 --continue-on-collection-errors --junitxml={xml} test",
                          shell=True, stdout=subprocess.DEVNULL, stderr=subprocess.DEVNULL, start_new_session=True)
    try:
        pr.wait(timeout=300)
    except subprocess.TimeoutExpired:
        os.killpg(pr.pid, signal.SIGKILL)
        pr.wait()
    ok = set()
    try:
        for tc in ET.parse(xml).getroot().iter("testcase"):
            if not any(ch.tag in ("failure", "error", "skipped") for ch in tc):
                ok.add(tc.get("classname") + "::" + tc.get("name"))
    except Exception:  # noqa: BLE001
        pass
    shutil.rmtree(os.path.join(d, "tmp"), ignore_errors=True)
    diff = sh(f"git -C {d} diff").stdout
    sh(f"git -C {d} checkout -- . ")
    return len(base - ok), diff


def run_check(prop, d, m, extra_props=()):
    p = os.path.join(d, m["file"])
    sh(f"git -C {d} checkout -- . ")
    src = open(p).read().splitlines()
    src[m["line"] - 1] = m["new"]
    open(p, "w").write("\n".join(src) + "\n")
    res = {}
    for pr in (prop,) + tuple(extra_props):
        r = sh(f"cd {ROOT} && VERIF_REPO={d} VERIF_NO_EVIDENCE=1 ./bin/check {pr} --tier quick", timeout=3600)
        clauses = sorted(set(re.findall(r"clause=(\S+)", r.stdout)))
        res[pr] = {"rc": r.returncode, "clauses": clauses[:6], "tail": r.stdout.strip().splitlines()[-1][:200] if r.stdout.strip() else r.stderr[-200:]}
        if r.returncode == 1:
            break
    sh(f"git -C {d} checkout -- . ")
    return res


def main():
    ap = argparse.ArgumentParser()
    ap.add_argument("prop")
    ap.add_argument("--n", type=int, default=40, help="number of candidate mutants to try against the suite")
    ap.add_argument("--max-check", type=int, default=16, help="at most this many test-surviving mutants are run against the check")
    ap.add_argument("--seed", type=int, default=0)
    ap.add_argument("--jobs", type=int, default=12)
    a = ap.parse_args()
    rng = random.Random(a.seed)
    cands = []
    for path, ranges in anchors(a.prop).items():
        lines, cur = map_lines(path, ranges)
        cs = [m for m in candidates(path, set(lines), cur) if compiles(path, cur, m)]
        cands += cs
    rng.shuffle(cands)
    # spread over lines: at most 2 mutants per source line
    per = {}
    pick = []
    for m in cands:
        k = (m["file"], m["line"])
        if per.get(k, 0) >= 2:
            continue
        per[k] = per.get(k, 0) + 1
        pick.append(m)
        if len(pick) >= a.n:
            break
    print(f"{a.prop}: {len(cands)} candidate mutants in the anchored ranges, trying {len(pick)}", flush=True)
    os.makedirs(WT, exist_ok=True)
    base = baseline()
    jobs = min(a.jobs, len(pick)) or 1
    for k in range(jobs):
        prepare_worktree(k)
    results = []
    try:
        # suites in parallel, one worktree per worker
        with cf.ThreadPoolExecutor(max_workers=jobs) as ex:
            futs = {}
            free = list(range(jobs))
            pending = list(pick)
            done = []
            running = {}
            while pending or running:
                while pending and free:
                    k = free.pop()
                    m = pending.pop()
                    f = ex.submit(run_suite, (k, m, base))
                    running[f] = (k, m)
                fin, _ = cf.wait(list(running), return_when=cf.FIRST_COMPLETED)
                for f in fin:
                    k, m = running.pop(f)
                    free.append(k)
                    try:
                        lost, diff = f.result()
                    except Exception as ex_:  # noqa: BLE001
                        lost, diff = -1, str(ex_)
                    m["tests_lost"] = lost
                    m["diff"] = diff
                    done.append(m)
        survivors = [m for m in done if m["tests_lost"] == 0]
        print(f"{a.prop}: {len(survivors)} of {len(done)} mutants keep all {len(base)} baseline tests passing", flush=True)
        d0 = f"{WT}/w0"
        for m in survivors[: a.max_check]:
            r = run_check(a.prop, d0, m)
            m["check"] = r
            rc = r[a.prop]["rc"]
            m["verdict"] = "killed" if rc == 1 else "survived" if rc == 0 else "machinery-failure"
            print(f"  {m['verdict']:9s} {m['file']}:{m['line']}  {m['old'].strip()[:70]!r} -> {m['new'].strip()[:70]!r}  {r[a.prop]['clauses'][:2]}", flush=True)
            results.append(m)
    finally:
        for k in range(jobs):
            sh(f"git -C /repo worktree remove --force {WT}/w{k}")
        sh("git -C /repo worktree prune")
        shutil.rmtree(WT, ignore_errors=True)
    os.makedirs(os.path.join(ROOT, "mutation"), exist_ok=True)
    out = {"property": a.prop, "seed": a.seed, "candidates": len(cands), "tried_against_suite": len(pick),
           "kept_all_baseline_tests": len([m for m in pick if m.get("tests_lost") == 0]),
           "checked": len(results), "killed": len([m for m in results if m["verdict"] == "killed"]),
           "survived": [{k: m[k] for k in ("file", "line", "old", "new", "op")} for m in results if m["verdict"] == "survived"],
           "machinery_failures": [{k: m[k] for k in ("file", "line", "old", "new", "check")} for m in results if m["verdict"] == "machinery-failure"],
           "killed_list": [{"file": m["file"], "line": m["line"], "old": m["old"].strip(), "new": m["new"].strip(), "clauses": m["check"][a.prop]["clauses"][:3]} for m in results if m["verdict"] == "killed"]}
    with open(os.path.join(ROOT, "mutation", a.prop + ".json"), "w") as fh:
        json.dump(out, fh, indent=1)
    print(f"{a.prop}: checked {out['checked']}, killed {out['killed']}, survived {len(out['survived'])}, machinery failures {len(out['machinery_failures'])}")


if __name__ == "__main__":
    main()
