"""Generic driver for case families: cases -> executor (process pool) -> TLC validator -> violations/evidence."""
import concurrent.futures as cf
import importlib
import json
import os

from . import tlc


CASE_TIMEOUT = float(__import__("os").environ.get("VERIF_CASE_TIMEOUT", "30"))


_SICK = 0


class CaseTimeout(BaseException):
    pass


def guarded(fn, case, secs=None):
    """runs one case under a watchdog: a call of the implementation that does not return within `secs` is interrupted (repeatedly, executors catch
    BaseException per step) and the case is reported as {"tid", "timeout": 1}; the runner turns it into a `terminates` violation"""
    import signal
    global _SICK
    if _SICK >= 3:
        # this worker has already met three calls that do not return: the rest of its share is not attempted (each would cost the full timeout)
        return {"tid": case["tid"], "timeout": 1, "skipped": 1}
    hit = {"n": 0}

    def onalarm(sig, frm):
        hit["n"] += 1
        raise CaseTimeout()
    old = signal.signal(signal.SIGALRM, onalarm)
    signal.setitimer(signal.ITIMER_REAL, secs or CASE_TIMEOUT, 0.5)
    try:
        out = fn(case)
    except CaseTimeout:
        out = None
    except Exception as ex:  # noqa: BLE001 - the implementation raised where the executor does not expect it (object construction): a result, not a harness error
        import traceback
        tb = traceback.extract_tb(ex.__traceback__)
        where = next((f"{os.path.basename(fr.filename)}:{fr.lineno}" for fr in reversed(tb) if "/fibertree/" in fr.filename), "")
        out = {"tid": case["tid"], "crash": f"err:{type(ex).__name__}:{str(ex)[:80]}", "in_library": 1 if where else 0, "at": where}
        if not where:
            raise
    finally:
        signal.setitimer(signal.ITIMER_REAL, 0)
        signal.signal(signal.SIGALRM, old)
    if hit["n"]:
        _SICK += 1
        return {"tid": case["tid"], "timeout": 1}
    return out


def _call(args):
    modname, fn, case = args
    mod = importlib.import_module(modname)
    return guarded(getattr(mod, fn), case)


def split_timeouts(prop, cases, logs, op_of=None):
    """-> (cases, logs) without the timed-out ones, and one violation per timed-out case"""
    viol = []
    kc, kl = [], []
    for c, lg in zip(cases, logs):
        if isinstance(lg, dict) and lg.get("crash"):
            viol.append({"clause": f"P:{prop}:no-exception", "op": (op_of(c) if op_of else "call"), "where": "setup:" + lg.get("at", ""), "step": 0, "detail": {"exc": lg["crash"]},
                         "behaviour": {k: w for k, w in c.items() if k != "tid"}})
        elif isinstance(lg, dict) and lg.get("timeout"):
            if lg.get("skipped"):
                continue
            viol.append({"clause": f"P:{prop}:terminates", "op": (op_of(c) if op_of else "call"), "where": "timeout", "step": 1, "detail": {"exc": "timeout"},
                         "behaviour": {k: w for k, w in c.items() if k != "tid"}})
        else:
            kc.append(c)
            kl.append(lg)
    return kc, kl, viol


def execute_all(modname, fn, cases, procs=16):
    if not cases:
        return []
    with cf.ProcessPoolExecutor(max_workers=procs) as ex:
        return list(ex.map(_call, [(modname, fn, c) for c in cases], chunksize=32))


def run_family(ctx, prop, cases, exec_mod, validator, cfg, op_of, where_of, beh_of=None, exec_fn="execute", nontrivial=None, name=None):
    """cases: list of dicts (tid assigned here).  Returns partial result dict (violations, deviations, counts)."""
    for n, c in enumerate(cases):
        c["tid"] = n + 1
    logs = execute_all(exec_mod, exec_fn, cases)
    cases, logs, tviol = split_timeouts(prop, cases, logs, lambda c: str(c.get("op", c.get("kind", "call"))))
    verdicts, vstats = tlc.validate(validator, cfg, logs, name=name or prop)
    violations, devs, clauses = list(tviol), {}, {}
    events = 0
    distinct = set()
    for case, lg in zip(cases, logs):
        v = verdicts[lg["tid"]]
        events += max(1, v.get("n", 1))
        if nontrivial is None or nontrivial(case, lg):
            distinct.add(json.dumps({k: w for k, w in case.items() if k != "tid"}, sort_keys=True))
        for (st, cl) in v["fails"]:
            clauses[cl] = clauses.get(cl, 0) + 1
            rec = {"clause": cl, "op": op_of(case, lg, st), "where": where_of(case, lg, st), "step": st,
                   "detail": {"exc": lg.get("exc", "ok")}, "behaviour": beh_of(case) if beh_of else {k: w for k, w in case.items() if k != "tid"}}
            if cl.startswith("P:" + prop + ":"):
                violations.append(rec)
            elif cl.startswith("S:"):
                k = (cl, rec["op"], rec["where"])
                devs.setdefault(k, [0, rec["behaviour"]])
                devs[k][0] += 1
    return {"states": vstats["distinct"], "transitions": vstats["generated"], "traces": len(logs), "evaluations": events,
            "distinct_nontrivial": len(distinct), "violations": violations, "clauses": clauses,
            "deviations": [{"clause": k[0], "op": k[1], "where": k[2], "count": v[0], "example": v[1]} for k, v in sorted(devs.items())],
            "samples": [{k: w for k, w in c.items() if k != "tid"} for c in cases[:: max(1, len(cases) // 4)]][:5]}


def merge(res, part):
    for k in ("states", "transitions", "traces", "evaluations", "distinct_nontrivial"):
        res[k] = res.get(k, 0) + part.get(k, 0)
    res.setdefault("violations", []).extend(part.get("violations", []))
    res.setdefault("deviations", []).extend(part.get("deviations", []))
    res.setdefault("samples", []).extend(part.get("samples", [])[:3])
    for k, v in part.get("clauses", {}).items():
        res.setdefault("clauses", {})[k] = res.get("clauses", {}).get(k, 0) + v
    return res


def design_entry(module, name, r, mode, invariants):
    return {"module": module, "cfg": name, "ok": bool(r["ok"]), "states": r["stats"]["distinct"], "generated": r["stats"]["generated"],
            "wall_s": round(r["wall"], 1), "mode": mode, "invariants": invariants}


def replay_family(ctx, prop, rec, exec_mod, validator, cfg, exec_fn="execute"):
    case = dict(rec["behaviour"])
    case["tid"] = 1
    mod = importlib.import_module(exec_mod)
    lg = guarded(getattr(mod, exec_fn), case)
    if lg.get("crash"):
        print(("VIOLATION property=%s replay=(replayed: " % (prop)) + lg["crash"] + ")")
        return 1
    if lg.get("timeout"):
        print(f"VIOLATION property={prop} replay=(replayed: the call does not terminate)")
        return 1
    verdicts, _ = tlc.validate(validator, cfg, [lg], name=prop + "_replay", shards=1)
    print(json.dumps(verdicts[1]["fails"]))
    bad = [f for f in verdicts[1]["fails"] if f[1].startswith("P:" + prop)]
    if bad:
        print(f"VIOLATION property={prop} replay=(replayed)")
    return 1 if bad else 0
