"""Driver:  bin/check Cxx --tier quick|thorough [--replay FILE] [--selftest]

exit 0  property held on everything explored (known findings are printed as KNOWN-FINDING lines)
exit 1  a violation not listed in known_findings.json:  VIOLATION property=<id> replay=<path>
exit 2  machinery failure (TLC crash, design-level model violated, unparsable log)
"""
import argparse
import fnmatch
import importlib
import json
import os
import random
import sys
import time
import traceback

ROOT = os.path.dirname(os.path.dirname(os.path.abspath(__file__)))
sys.path.insert(0, ROOT)
sys.path.insert(0, __import__("os").environ.get("VERIF_REPO", "/repo"))
sys.dont_write_bytecode = True

from harness import tlc  # noqa: E402


class Ctx:
    def __init__(self, prop, tier, seed):
        self.prop = prop
        self.tier = tier
        self.seed = seed
        self.rng = random.Random(seed)
        self.quick = tier == "quick"
        self.t0 = time.time()
        self.notes = []
        self.round = 0

    def note(self, msg):
        self.notes.append(msg)
        print("NOTE " + msg, flush=True)

    def elapsed(self):
        return time.time() - self.t0


def load_findings():
    path = os.path.join(ROOT, "known_findings.json")
    if not os.path.exists(path):
        return []
    return json.load(open(path))["findings"]


def _m(value, pat):
    """pattern or list of patterns (fnmatch, case-sensitive); None / '*' match everything"""
    if pat in (None, "*"):
        return True
    pats = pat if isinstance(pat, list) else [pat]
    return any(fnmatch.fnmatchcase(str(value), p) for p in pats)


def match_finding(findings, prop, v):
    for f in findings:
        if f.get("status") != "known" or f.get("property") != prop:
            continue
        if not _m(v.get("clause"), f.get("clause", "*")):
            continue
        if not _m((v.get("detail") or {}).get("exc", ""), f.get("exc")):
            continue
        if not _m(v.get("op"), f.get("op")) or not _m(v.get("where"), f.get("where")):
            continue
        return f
    return None


def write_evidence(prop, tier, seed, res, wall, nviol):
    cov = {
        "states": max(1, int(res.get("states", 0))),
        "transitions": max(1, int(res.get("transitions", 0))),
        "traces_validated_against_impl": int(res.get("traces", 0)),
        "samples": res.get("samples", [])[:6] or ["(none)"],
        "evaluations": int(res.get("evaluations", 0)),
        "distinct_nontrivial": int(res.get("distinct_nontrivial", 0)),
        "rule": res.get("rule", ""),
        "exhaustive": bool(res.get("exhaustive", False)),
        "design_level_runs": res.get("design", []),
        "clauses_evaluated": res.get("clauses", {}),
        "known_findings_seen": res.get("known_seen", []),
        "spec_deviations": res.get("deviations", [])[:20],
        "scope": res.get("scope", {}),
    }
    ev = {"property_id": prop, "tier": tier, "seed": seed, "level": "model_checking", "coverage": cov,
          "assumptions": res.get("assumptions", []), "wall_s": round(wall, 2), "violations": nviol}
    os.makedirs(os.path.join(ROOT, "evidence"), exist_ok=True)
    with open(os.path.join(ROOT, "evidence", prop + ".json"), "w") as fh:
        json.dump(ev, fh, indent=1, sort_keys=True)


def main():
    ap = argparse.ArgumentParser()
    ap.add_argument("prop")
    ap.add_argument("--tier", default=os.environ.get("VERIF_TIER", "quick"), choices=["quick", "thorough"])
    ap.add_argument("--replay")
    ap.add_argument("--selftest", action="store_true")
    a = ap.parse_args()
    seed = int(os.environ.get("VERIF_SEED", "0") or 0)
    prop = a.prop
    mod = importlib.import_module("harness." + prop.lower())
    ctx = Ctx(prop, a.tier, seed)
    t0 = time.time()
    try:
        if a.replay:
            rc = mod.replay(ctx, json.load(open(a.replay)))
            sys.exit(rc)
        if a.selftest:
            # binding demonstration: one implementation-produced value is changed in every recorded behaviour before validation;
            # the validator must reject (nearly) all of them.  Evidence is not rewritten.
            os.environ["VERIF_CORRUPT"] = "1"
            res = mod.run(ctx)
            nv = len(res.get("violations", [])) + sum(d.get("count", 0) for d in res.get("deviations", []))
            n = max(1, res.get("traces", 0))
            spots = sum(1 for v in tlc.LAST_CORRUPTED.values() if v is not None)
            print(f"SELFTEST {prop}: {res.get('traces')} recorded behaviours, one produced value corrupted in each (last batch: {spots} of {len(tlc.LAST_CORRUPTED)} had a "
                  f"corruptible field); clause failures reported: {nv}")
            ok = nv > 0
            print("SELFTEST " + ("ok: corrupted traces are rejected" if ok else "FAILED: no corrupted trace was rejected"))
            sys.exit(0 if ok else 1)
        res = mod.run(ctx)
        if a.tier == "thorough":
            # thorough = the enlarged scope of the first round, then further rounds of the sampled parts under fresh seeds until the budget is used
            budget = float(os.environ.get("VERIF_THOROUGH_BUDGET", "900"))
            rounds, last = 1, time.time() - t0
            while time.time() - t0 + last < budget and rounds < 50:
                t1 = time.time()
                c2 = Ctx(prop, a.tier, seed * 1000 + rounds)
                c2.round = rounds
                r2 = mod.run(c2)
                for d2 in r2.get("design", []):
                    if not d2.get("ok", True):
                        res.setdefault("design", []).append(d2)
                for k in ("states", "transitions", "traces", "evaluations", "distinct_nontrivial"):
                    res[k] = res.get(k, 0) + r2.get(k, 0)
                res.setdefault("violations", []).extend(r2.get("violations", []))
                res.setdefault("deviations", []).extend(r2.get("deviations", [])[:10])
                for k, v in r2.get("clauses", {}).items():
                    res.setdefault("clauses", {})[k] = res.get("clauses", {}).get(k, 0) + v
                rounds += 1
                last = time.time() - t1
            res.setdefault("scope", {})["rounds"] = rounds
            res["exhaustive"] = False if rounds > 1 else res.get("exhaustive", False)
    except tlc.TLCError as ex:
        print("MACHINERY-FAILURE " + str(ex)[:6000])
        sys.exit(2)
    except Exception:
        traceback.print_exc()
        print("MACHINERY-FAILURE exception in harness")
        sys.exit(2)
    for dsg in res.get("design", []):
        if not dsg.get("ok", True):
            print(f"MACHINERY-FAILURE design-level model check failed: {dsg}")
            sys.exit(2)
    findings = load_findings()
    known_seen = {}
    unknown = []
    for v in res.get("violations", []):
        f = match_finding(findings, prop, v)
        if f is not None:
            known_seen.setdefault(f["id"], [f, 0])
            known_seen[f["id"]][1] += 1
        else:
            unknown.append(v)
    res["known_seen"] = [{"id": k, "count": c, "what": f["what"]} for k, (f, c) in sorted(known_seen.items())]
    for k, (f, c) in sorted(known_seen.items()):
        print(f"KNOWN-FINDING: property={prop} {f['id']}: {f['what']} [clause {f['clause']}, op {f.get('op')}, "
              f"where {f.get('where')}; {c} occurrence(s) this run]")
    for f in findings:
        if f.get("status") == "known" and f.get("property") == prop and f["id"] not in known_seen:
            print(f"NOTE listed finding {f['id']} was not exercised at this tier/seed")
    rdir = os.path.join(ROOT, ".work", "replay")
    os.makedirs(rdir, exist_ok=True)
    # one VIOLATION line per distinct (clause, op, where), at most 10
    seen = set()
    nlines = 0
    for v in unknown:
        key = (v.get("clause"), v.get("op"), v.get("where"))
        if key in seen:
            continue
        seen.add(key)
        nlines += 1
        if nlines > 10:
            break
        path = os.path.join(rdir, f"{prop}_{nlines}.json")
        with open(path, "w") as fh:
            json.dump(v, fh, indent=1)
        print(f"VIOLATION property={prop} replay={path}")
        print(f"  clause={v.get('clause')} op={v.get('op')} where={v.get('where')} step={v.get('step')} detail={str(v.get('detail'))[:400]}")
    with open(os.path.join(ROOT, ".work", f"{prop}_violations.json"), "w") as fh:
        json.dump(unknown[:3000], fh)
    wall = time.time() - t0
    if not os.environ.get("VERIF_NO_EVIDENCE"):          # set only by development aids (harness/mutation.py) that run against a scratch copy
        write_evidence(prop, a.tier, seed, res, wall, len(unknown))
    print(f"{prop} tier={a.tier} seed={seed}: behaviours={res.get('traces')} events={res.get('evaluations')} "
          f"tlc_states={res.get('states')} violations={len(unknown)} known={sum(c for _, c in known_seen.values())} wall={wall:.1f}s")
    sys.exit(1 if unknown else 0)


if __name__ == "__main__":
    main()
