"""C12 - equality, emptiness and counting depend on content only"""
import concurrent.futures as cf
import copy
from . import tlc, family
from .c05 import rand_tree


def gen(name, nc, depth, vmax, d):
    cfg = tlc.write_cfg(f"MC_Eq_{name}.cfg", f"CONSTANTS\n NC = {nc}\n DEPTH = {depth}\n VMAX = {vmax}\n D = {d}\nINIT Init\nNEXT Next\nINVARIANT DesignOK\nCHECK_DEADLOCK FALSE\n")
    r = tlc.model_check("MC_Eq.tla", cfg, name="eq_" + name, workers=1)
    if not r["ok"]:
        raise tlc.TLCError("design-level MC_Eq failed:\n" + r["out"][-3000:])
    return r


def mutate_leaf(rng, t, depth, d):
    """a neighbour: change / add / remove one deep leaf, or add a representation detail (explicit default, empty sub-fiber)"""
    t = copy.deepcopy(t)
    f = t
    for lvl in range(depth - 1):
        if not f["e"] or rng.random() < 0.15:
            c = rng.randint(0, 3)
            if not any(x[0] == c for x in f["e"]):
                f["e"].append([c, {"k": "F", "e": []}])
                f["e"].sort(key=lambda x: x[0])
                return t
        f = rng.choice(f["e"])[1]
    c = rng.randint(0, 3)
    for x in f["e"]:
        if x[0] == c:
            x[1]["v"] = rng.choice([d, 1, 2, 3])
            return t
    f["e"].append([c, {"k": "L", "v": rng.choice([d, d, 1, 2])}])
    f["e"].sort(key=lambda x: x[0])
    return t


def revalue(rng, t, d):
    """the same tree with some leaf values redrawn (explicit defaults become values and back): what in-place writes through references can reach"""
    t = copy.deepcopy(t)
    changed = [False]
    def walk(f):
        for x in f["e"]:
            if x[1]["k"] == "F":
                walk(x[1])
            elif x[1]["k"] == "L" and rng.random() < 0.6:
                nv = rng.choice([v for v in (d, d, 1, 2, 3) if v != x[1]["v"]])
                x[1]["v"] = nv
                changed[0] = True
    walk(t)
    return t if changed[0] else None


def run(ctx):
    jobs = [("d1", 3, 1, 2, 0), ("d2", 2, 2, 1, 0), ("d1nz", 3, 1, 1, 1)]
    with cf.ThreadPoolExecutor(3) as ex:
        rs = list(ex.map(lambda j: gen(*j), jobs))
    design, cases = [], []
    states = 0
    for j, r in zip(jobs, rs):
        design.append(family.design_entry("MC_Eq", j[0], r, "exhaustive: Fiber.__eq__ algorithm = equality of content, nonEmpty canonical, for all pairs", ["DesignOK"]))
        states += r["stats"]["distinct"]
        ps = [p for p in r["prints"] if isinstance(p, dict) and "a" in p]
        if ctx.quick and len(ps) > 3000:
            ps = ctx.rng.sample(ps, 3000)
        for p in ps:
            emb = ctx.rng.choice([("fiber", "fiber"), ("tensor", "tensor"), ("fiber", "tensor"), ("tensor", "fiber")]) if p["depth"] == 1 else ("tensor", "tensor")
            cases.append({"a": p["a"], "b": p["b"], "c": p["a"] if ctx.rng.random() < 0.5 else p["b"], "depth": p["depth"], "d": p["d"], "emb_a": emb[0], "emb_b": emb[1],
                          "diffids": 1 if (emb == ("tensor", "tensor") and ctx.rng.random() < 0.15) else 0,
                          "shape_a": None, "shape_b": None})
    # depth 1-3 random trees against single-leaf neighbours, different declared shapes
    n = 1500 if ctx.quick else 30000
    for _ in range(n):
        depth = ctx.rng.choice([1, 2, 3])
        d = ctx.rng.choice([0, 0, 0, 2])
        a = rand_tree(ctx.rng, 4, depth, dflt=d)
        b = mutate_leaf(ctx.rng, a, depth, d) if ctx.rng.random() < 0.8 else rand_tree(ctx.rng, 4, depth, dflt=d)
        c = mutate_leaf(ctx.rng, b, depth, d) if ctx.rng.random() < 0.5 else a
        cases.append({"a": a, "b": b, "c": c, "depth": depth, "d": d, "emb_a": "tensor", "emb_b": "tensor", "diffids": 0,
                      "shape_a": [5] * depth if ctx.rng.random() < 0.5 else None, "shape_b": [9] * depth if ctx.rng.random() < 0.5 else None})
    # the same comparisons over other scalar classes: the abstract values 0..3 stand for floats (0.0 for the default), integers beyond 2**31 that differ by one,
    # nearly equal floats, negative numbers (harness/proj.py VALUE_MAPS): equality is decided by the values, not by their type or magnitude
    for c in list(cases):
        if c["d"] != 0 and c["emb_a"] == "tensor" and c["emb_b"] == "tensor" and ctx.rng.random() < 0.5:
            # the default declared by the tensor's leaf rank differs from the one the fibers were built with
            cases.append(dict(c, latedflt=1))
    # asked - changed in place through payload references - asked again (answers must follow the current content, nothing remembered from the first pass)
    for c in list(cases):
        if not c.get("latedflt") and ctx.rng.random() < 0.3:
            a2 = revalue(ctx.rng, c["a"], c["d"])
            if a2 is not None:
                cases.append(dict(c, a2=a2))
    for c in list(cases):
        if c["d"] == 0 and ctx.rng.random() < (0.35 if ctx.quick else 0.6):
            cases.append(dict(c, vmap=ctx.rng.choice(["floatzero", "big", "nearfloats", "negative"])))
    part = family.run_family(ctx, "C12", cases, "harness.exec_eq", "EqTrace.tla", "EqTrace.cfg",
                             op_of=lambda c, lg, st: "eq", where_of=lambda c, lg, st: f"depth{c['depth']}:{c['emb_a']}-{c['emb_b']}:d{c['d']}" + (":" + c["vmap"] if c.get("vmap") else "") + (":latedflt" if c.get("latedflt") else "") + (":requery" if c.get("a2") else ""),
                             nontrivial=lambda c, lg: bool(c["a"]["e"]) or bool(c["b"]["e"]))
    res = {"design": design, "states": states, "transitions": states, "exhaustive": False,
           "rule": "a case is a pair (triple) of trees with an embedding; ==, !=, reflexive/copy equality, isEmpty, countValues, nonEmpty are executed on the "
                   "implementation; pairs are emitted by TLC from MC_Eq (all pairs over 3 coordinates x {absent,0,1,2} at depth 1, all 10000 pairs of two-level "
                   "2x2 trees, a non-zero default scope), plus seeded random depth 1-3 trees against single-leaf / representation-only neighbours",
           "assumptions": ["tensors compared with tensors, otherwise root fibers (ownership must not matter)"],
           "scope": {"tlc_pairs": sum(len(r["prints"]) for r in rs), "random": n}}
    return family.merge(res, part)


def replay(ctx, rec):
    return family.replay_family(ctx, "C12", rec, "harness.exec_eq", "EqTrace.tla", "EqTrace.cfg")
