"""C06 - kernel results do not depend on the dataflow used to compute them"""
import itertools
from . import tlc, family
from .c05 import rand_tree

SHAPES = {
    "dot":    {"out": [], "facs": [{"t": "A", "ix": ["k"]}, {"t": "B", "ix": ["k"]}]},
    "elem":   {"out": ["m"], "facs": [{"t": "A", "ix": ["m"]}, {"t": "B", "ix": ["m"]}]},
    "copy":   {"out": ["m"], "facs": [{"t": "A", "ix": ["m"]}]},
    "matvec": {"out": ["m"], "facs": [{"t": "A", "ix": ["m", "k"]}, {"t": "B", "ix": ["k"]}]},
    "reduce": {"out": ["m"], "facs": [{"t": "A", "ix": ["m", "k"]}]},
    "outer":  {"out": ["m", "n"], "facs": [{"t": "A", "ix": ["m"]}, {"t": "B", "ix": ["n"]}]},
    "matmul": {"out": ["m", "n"], "facs": [{"t": "A", "ix": ["m", "k"]}, {"t": "B", "ix": ["k", "n"]}]},
    "chain3": {"out": ["m"], "facs": [{"t": "A", "ix": ["m", "k"]}, {"t": "B", "ix": ["k"]}, {"t": "C", "ix": ["m"]}]},
    "dot3":   {"out": [], "facs": [{"t": "A", "ix": ["k"]}, {"t": "B", "ix": ["k"]}, {"t": "C", "ix": ["k"]}]},
    "total":  {"out": [], "facs": [{"t": "A", "ix": ["m", "k"]}]},
    "vsum":   {"out": [], "facs": [{"t": "A", "ix": ["k"]}]},
    "tri":    {"out": ["m"], "facs": [{"t": "A", "ix": ["m", "k"]}, {"t": "B", "ix": ["k", "n"]}, {"t": "C", "ix": ["n"]}]},
}


def no_ghost_tree(rng, nc, depth, pz=0.1):
    """random operand; 'ghost' sub-fibers (stored elements, no content) are the subject of the C08 / C09 known findings, not of C06"""
    from .c09 import classify_tree
    while True:
        t = rand_tree(rng, nc, depth, pz=pz, pabs=rng.choice([0.2, 0.5]))
        if classify_tree(t) != "ghost":
            return t


def variables(expr):
    vs = []
    for f in expr["facs"]:
        for v in f["ix"]:
            if v not in vs:
                vs.append(v)
    return vs


def negate_some(rng, t, p=0.4):
    """values of both signs: partial sums cancel, an output element (or a whole output sub-fiber) returns to the default in the middle of a reduction"""
    if t["k"] == "L":
        return {"k": "L", "v": -t["v"] if rng.random() < p else t["v"]}
    return {"k": "F", "e": [[c, negate_some(rng, q, p)] for c, q in t["e"]]}


def kernel_cases(rng, n_ops, quick, shapes=None, metrics=False, pz=0.1, neg=False, revisit=False):
    cases = []
    for name, expr in SHAPES.items():
        if shapes and name not in shapes:
            continue
        vs = variables(expr)
        for _ in range(n_ops):
            nc = rng.choice([2, 3])
            ext = {v: nc for v in vs}
            ops = {f["t"]: no_ghost_tree(rng, nc, len(f["ix"]), pz) for f in expr["facs"]}
            if neg and rng.random() < 0.5:
                ops = {k: negate_some(rng, v) for k, v in ops.items()}
            if neg and len(expr["facs"]) > 1 and rng.random() < 0.35:
                # whole output rows that cancel in the middle of a reduction: the first factor holds +-1 (some absent), the others are dense ones,
                # so every element of an output row returns to the default in the same pass
                def dense(depth, val):
                    if depth == 0:
                        return {"k": "L", "v": val()}
                    return {"k": "F", "e": [[c, dense(depth - 1, val)] for c in range(nc)]}

                def prune(t):
                    if t["k"] == "L":
                        return t
                    e = [[c, prune(q)] for c, q in t["e"]]
                    return {"k": "F", "e": [[c, q] for c, q in e if (q["k"] == "L" and q["v"] != 0) or (q["k"] == "F" and q["e"])]}
                first = expr["facs"][0]
                ops = {f["t"]: dense(len(f["ix"]), lambda: 1) for f in expr["facs"]}
                ops[first["t"]] = prune(dense(len(first["ix"]), lambda: rng.choice([1, -1, 1, -1, 0])))
            if rng.random() < 0.08:
                ops[rng.choice(list(ops))] = {"k": "F", "e": []}
            orders = list(itertools.permutations(vs))
            if quick and len(orders) > 2:
                orders = rng.sample(orders, 2)
            for order in orders:
                for style in (("tf", "lf") if len(expr["facs"]) > 1 else ("tf",)):
                    cases.append({"shape": name, "expr": expr, "ops": ops, "order": list(order), "style": style, "extents": ext, "zshape": 1})
                # a uniform tiling of one rank, applied consistently to the operands
                v = rng.choice(vs)
                o2 = list(order)
                k = o2.index(v)
                o2[k:k + 1] = [v + "1", v + "0"]
                if rng.random() < 0.5 and k > 0:           # hoist the tile loop to the front
                    o2.remove(v + "1")
                    o2.insert(0, v + "1")
                cases.append({"shape": name, "expr": expr, "ops": ops, "order": o2, "style": "tf", "extents": ext, "zshape": 1, "tile": {"v": v, "s": rng.choice([1, 2])}})
                # both ranks of a two-rank operand tiled (four ranks to swizzle): the second tiled variable is a reduced one
                red = [w for w in vs if w not in expr["out"] and w != v]
                if neg and red and rng.random() < 0.6:
                    w = rng.choice(red)
                    o3 = list(o2)
                    kk = o3.index(w)
                    o3[kk:kk + 1] = [w + "1", w + "0"]
                    rng.shuffle(o3)
                    # keep every tile loop above its own element loop
                    for u in (v, w):
                        i1, i0 = o3.index(u + "1"), o3.index(u + "0")
                        if i1 > i0:
                            o3[i1], o3[i0] = o3[i0], o3[i1]
                    cases.append({"shape": name, "expr": expr, "ops": ops, "order": o3, "style": "tf", "extents": ext, "zshape": 1, "tile": {"v": v, "s": rng.choice([1, 2])},
                                  "tile2": {"v": w, "s": rng.choice([1, 2])}})
    if neg:
        # cancelling rows, every loop order: the first factor holds +-1 (some absent) over 3 coordinates, the others are dense ones - whole output rows return to
        # the default in the middle of a reduction (an existing output sub-fiber empties while new ones are created in the same pass)
        for name in ("matmul", "matvec", "chain3"):
            expr = SHAPES[name]
            vs = variables(expr)
            for _ in range(max(8, n_ops // 3)):
                nc = 3
                ext = {v: nc for v in vs}

                def dense(depth, val):
                    if depth == 0:
                        return {"k": "L", "v": val()}
                    return {"k": "F", "e": [[c, dense(depth - 1, val)] for c in range(nc)]}

                def prune(t):
                    if t["k"] == "L":
                        return t
                    e = [[c, prune(q)] for c, q in t["e"]]
                    return {"k": "F", "e": [[c, q] for c, q in e if (q["k"] == "L" and q["v"] != 0) or (q["k"] == "F" and q["e"])]}
                ops = {f["t"]: dense(len(f["ix"]), lambda: 1) for f in expr["facs"]}
                first = expr["facs"][0]
                ops[first["t"]] = prune(dense(len(first["ix"]), lambda: rng.choice([1, -1, 1, -1, 0])))
                for order in itertools.permutations(vs):
                    for style in ("tf", "lf"):
                        cases.append({"shape": name, "expr": expr, "ops": ops, "order": list(order), "style": style, "extents": ext, "zshape": 1})
        # revisited two-rank outputs: matmul with the reduction rank tiled and its tile loop outermost; in the later passes some rows of A that are not yet in the
        # output meet nothing in B (they are offered, yield no product and leave nothing behind) and sort before a row the first pass already wrote
        if revisit:
            expr = SHAPES["matmul"]
            for _ in range(max(8, n_ops // 3)):
                ext = {"m": rng.randint(4, 5), "n": 2, "k": 4}
                last = ext["m"] - 1
                a_rows = {last: {0: rng.randint(1, 2), 3: rng.randint(1, 2)}}
                for m in rng.sample(range(last), rng.randint(2, last)):
                    a_rows[m] = {2: rng.randint(1, 2)}                        # meets no row of B
                if rng.random() < 0.5:
                    a_rows.setdefault(rng.randint(0, last - 1), {})[1] = 1      # sometimes an early row is written by the first pass too
                ops = {"A": {"k": "F", "e": [[m, {"k": "F", "e": [[k, {"k": "L", "v": v}] for k, v in sorted(r.items())]}] for m, r in sorted(a_rows.items())]},
                       "B": {"k": "F", "e": [[k, {"k": "F", "e": [[n, {"k": "L", "v": rng.randint(1, 2)}] for n in range(2) if n == k % 2 or rng.random() < 0.5]}] for k in (0, 1, 3)]}}
                for o in (["k1", "m", "n", "k0"], ["k1", "m", "k0", "n"], ["k1", "n", "m", "k0"]):
                    cases.append({"shape": "matmul", "expr": expr, "ops": ops, "order": o, "style": "tf", "extents": ext, "zshape": 1, "tile": {"v": "k", "s": 2}})
        # wide two-variable kernels: an output fiber of 10-16 coordinates populated pass by pass (a reduction rank looped above the output rank)
        for name in ("matvec", "reduce", "elem", "copy"):
            expr = SHAPES[name]
            vs = variables(expr)
            if name in ("matvec", "reduce"):
                # both variables tiled, extents 4-6, every interleaving of the four loops that keeps a tile loop above its element loop
                for _ in range(max(12, n_ops // 2)):
                    ext = {"m": rng.randint(4, 6), "k": rng.randint(4, 6)}
                    a = {"k": "F", "e": [[m, {"k": "F", "e": [[k, {"k": "L", "v": rng.randint(1, 3)}] for k in range(ext["k"]) if rng.random() < 0.35]}] for m in range(ext["m"])]}
                    a = {"k": "F", "e": [[m, r] for m, r in a["e"] if r["e"]]}
                    ops = {"A": a}
                    if name == "matvec":
                        ops["B"] = {"k": "F", "e": [[k, {"k": "L", "v": rng.randint(1, 3)}] for k in range(ext["k"]) if rng.random() < 0.8]}
                    for o in set(itertools.permutations(["m1", "m0", "k1", "k0"])):
                        if o.index("m1") < o.index("m0") and o.index("k1") < o.index("k0"):
                            cases.append({"shape": name, "expr": expr, "ops": ops, "order": list(o), "style": "tf", "extents": ext, "zshape": 1,
                                          "tile": {"v": "m", "s": 2}, "tile2": {"v": "k", "s": 2}})
            for wi in range(max(10, n_ops // 2)):
                nc = rng.randint(12, 16) if wi else 16
                ext = {v: (nc if v in expr["out"] else 3) for v in vs}
                def tr(ix):
                    if len(ix) == 1:
                        return {"k": "F", "e": [[c, {"k": "L", "v": rng.randint(1, 2)}] for c in range(ext[ix[0]]) if rng.random() < 0.6]}
                    return {"k": "F", "e": [[c, tr(ix[1:])] for c in range(ext[ix[0]]) if rng.random() < 0.8]}
                ops = {f["t"]: tr(f["ix"]) for f in expr["facs"]}
                if name in ("matvec", "reduce") and (wi == 0 or rng.random() < 0.7):
                    # "staircase": the first pass of the reduction fills a dense low block of the output, the later passes add a few coordinates far beyond it
                    rows = {m: {0: rng.randint(1, 2)} for m in range(rng.randint(9, 11) if wi else 11)}      # (the first instance of each shape is always the widest one)
                    for k in range(1, ext["k"]):
                        for m in (rng.randint(0, 1), rng.randint(11, nc - 1), rng.randint(11, nc - 1)):
                            rows.setdefault(m, {})[k] = rng.randint(1, 2)
                    ops["A"] = {"k": "F", "e": [[m, {"k": "F", "e": [[k, {"k": "L", "v": v}] for k, v in sorted(r.items())]}] for m, r in sorted(rows.items())]}
                    if "B" in ops:
                        ops["B"] = {"k": "F", "e": [[k, {"k": "L", "v": rng.randint(1, 2)}] for k in range(ext["k"])]}
                for order in itertools.permutations(vs):
                    cases.append({"shape": name, "expr": expr, "ops": ops, "order": list(order), "style": "tf", "extents": ext, "zshape": 1})
    # tiled operands: half of them tile with the `/` operator where it applies (tiled rank first in the operand, same step)
    for c in cases:
        if c.get("tile") and rng.random() < 0.5:
            c["tilediv"] = 1
        elif rng.random() < 0.25 and not c.get("ufmt"):
            c["opnoshape"] = 1          # operands without declared shapes (estimated from their contents), tiled or not
    return cases


def design(ctx):
    out = []
    states = 0
    for sh in ("dot", "elem", "matvec", "reduce", "outer"):
        cfg = tlc.write_cfg(f"MC_Kernel_{sh}.cfg", f'CONSTANTS\n NC = 2\n SHAPE = "{sh}"\nINIT Init\nNEXT Next\nINVARIANT DesignOK\nCHECK_DEADLOCK FALSE\n')
        r = tlc.model_check("MC_Kernel.tla", cfg, name="k_" + sh, workers=2)
        out.append(family.design_entry("MC_Kernel", sh, r, "exhaustive: loop-nest machine = dense result for every loop order and every operand content over 2 coordinates; "
                                       "counter identities", ["DesignOK"]))
        states += r["stats"]["distinct"]
    return out, states


def run(ctx):
    dsg, states = design(ctx)
    cases = kernel_cases(ctx.rng, 64 if ctx.quick else 300, ctx.quick, neg=True, revisit=True)
    part = family.run_family(ctx, "C06", cases, "harness.exec_kernel", "KernelTrace.tla", "KernelTrace.cfg",
                             op_of=lambda c, lg, st: c["shape"], where_of=lambda c, lg, st: c["style"] + (":tiled" if c.get("tile") else ""),
                             beh_of=lambda c: {k: v for k, v in c.items() if k != "tid"},
                             nontrivial=lambda c, lg: all(t["e"] for t in c["ops"].values()))
    res = {"design": dsg, "states": states, "transitions": states, "exhaustive": False,
           "rule": "a case is one kernel: expression shape (dot, elementwise, copy, matrix-vector, reduction, outer product, matrix-matrix, two three-operand chains), "
                   "random sparse operands over 2-3 coordinates (explicit zeros and empty operands included), a loop order (all permutations; sampled in quick), an "
                   "intersection style, or a uniform tiling of one rank (tile loop adjacent or hoisted); the real nest is built with swizzleRanks / splitUniform / & / "
                   "Fiber.intersection / << / += and run; non-trivial = no operand is empty",
           "assumptions": ["kernels inside the idiom (intersection, populate, in-place update)", "positive integer values (no float accumulation order effects)"],
           "scope": {"cases": len(cases)}}
    return family.merge(res, part)


def replay(ctx, rec):
    return family.replay_family(ctx, "C06", rec, "harness.exec_kernel", "KernelTrace.tla", "KernelTrace.cfg")
