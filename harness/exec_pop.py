"""Executor for populate programs (z0, a, script): runs the real `for c, (zr, ar) in z << a:` with the body scripted,
logging what was offered, the state of z at every body execution and the final states.  No expected values."""
import sys

sys.path.insert(0, __import__("os").environ.get("VERIF_REPO", "/repo"))
from fibertree import Fiber, Payload, Tensor  # noqa: E402
from . import proj  # noqa: E402

IDS = ["K", "M", "N", "P"]


def _act(f):
    try:
        a = f.getActive()
        return [int(a[0]), int(a[1])]
    except Exception as ex:  # noqa: BLE001
        return ["err", type(ex).__name__]


def execute(b):
    depth = b["depth"]
    emb = b["emb"]
    script = {tuple(s["p"]): s for s in b["script"]}
    dz, da = b.get("dz", 0), b.get("da", 0)
    if emb == "tensor":
        zt = proj.build_tensor(b["z0"], IDS[:depth], default=dz, name="Z")
        at = proj.build_tensor(b["a"], IDS[:depth], default=da, name="A")
        if b.get("au"):
            at = proj.build_tensor(b["a"], IDS[:depth], default=da, shape=[b["ash"]] * depth, name="A")
            at.setFormat(IDS[depth - 1], "U")
        zroot, aroot = zt.getRoot(), at.getRoot()
        pz = lambda: proj.proj_tensor(zt)           # noqa: E731
        pa = lambda: proj.proj_tensor(at)           # noqa: E731
    else:
        zroot = proj.build_fiber(b["z0"], default=dz)
        aroot = proj.build_fiber(b["a"], default=da, shape=[b["ash"]] if b.get("au") else None)
        if b.get("au"):
            aroot.getRankAttrs().setFormat("U")
        pz = lambda: {"rank0": 0, "root": proj.proj_fiber(zroot), "ranks": []}   # noqa: E731
        pa = lambda: {"rank0": 0, "root": proj.proj_fiber(aroot), "ranks": []}   # noqa: E731
    expr = None
    if b.get("prebuilt"):
        # the populate expression is BUILT while the destination is still empty; the destination then receives z0 by another route (references), and only
        # then the stale expression is iterated.  The program is judged against the destination as it is when the loop starts.
        if emb == "tensor":
            zt = proj.build_tensor({"k": "F", "e": []}, IDS[:depth], default=dz, name="Z")
            zroot = zt.getRoot()
            pz = lambda: proj.proj_tensor(zt)           # noqa: E731
        else:
            zroot = proj.build_fiber({"k": "F", "e": []}, default=dz)
            pz = lambda: {"rank0": 0, "root": proj.proj_fiber(zroot), "ranks": []}   # noqa: E731
        expr = zroot << aroot

        def fill(t, path):
            for c, q in t["e"]:
                if q["k"] == "F":
                    zroot.getPayloadRef(*(path + [c]))
                    fill(q, path + [c])
                elif q["k"] == "L":
                    ref = zroot.getPayloadRef(*(path + [c]))
                    ref <<= proj.real(q["v"])
        fill(b["z0"], [])
        b = dict(b, z0=proj.strip(pz()["root"]))
    return run_on(b, zroot, aroot, pz, pa, script, depth, emb, dz, da, expr)


def run_on(b, zroot, aroot, pz, pa, script, depth, emb, dz, da, expr=None):
    out = {"tid": b["tid"], "z0": b["z0"], "a": b["a"], "script": b["script"], "depth": depth, "emb": emb, "dz": dz, "da": da, "au": 1 if b.get("au") else 0, "ash": b.get("ash", 0), "prebuilt": 1 if b.get("prebuilt") else 0,
           "a0": pa(), "offers": [], "mids": [], "exc": "ok"}

    def loop(zf, af, path, lvl, it=None):
        for c, (zr, ar) in (it if it is not None else zf << af):
            p = path + [c]
            if lvl == 1:
                off = {"p": p, "zv": proj.proj_payload(zr), "av": proj.strip(proj.proj_payload(ar))}
            else:
                off = {"p": p, "zv": proj.proj_payload(zr), "av": proj.proj_payload(ar)}
            out["offers"].append(off)
            out["mids"].append(pz())
            ch = script.get(tuple(p))
            if ch is None or ch["ch"] == "leave":
                continue
            if lvl == 1:
                if ch["ch"] == "assign":
                    zr <<= ch["v"]
                elif ch["ch"] == "accum":
                    zr += ch["v"]
                elif ch["ch"] == "zero":
                    zr <<= dz
            elif ch["ch"] == "descend":
                loop(zr, ar, p, lvl - 1)
            elif ch["ch"] == "touch":
                # create a path below the offered sub-fiber without writing anything (C02 / C01 only)
                zr.getPayloadRef(*([ch["v"]] * (lvl - 1)))
            elif ch["ch"] == "dense":
                for _ in zr.iterRangeShapeRef(0, 2):
                    pass
            elif ch["ch"] == "copyin":
                zr <<= ar                    # the offered sub-fiber is assigned the source's sub-fiber as a whole
            elif ch["ch"] == "clearit":
                zr.clear()

    try:
        loop(zroot, aroot, [], depth, expr)
    except BaseException as ex:  # noqa: B036
        out["exc"] = "err:" + type(ex).__name__ + ":" + str(ex)[:80]
    out["post"] = pz()
    out["apost"] = pa()
    out["zact"] = _act(zroot)
    out["aact"] = _act(aroot)
    return out


def gen_script(a_tree, depth, rng):
    """a loop body for the source as it is NOW (chosen from its projected state: input generation, not an expected value)"""
    def empty(p):
        return p["v"] == 0 if p["k"] == "L" else all(empty(q) for _, q in p["e"])
    script = []

    def rec(t, path, lvl):
        for c, p in t["e"]:
            if empty(p):
                continue
            if lvl == 1:
                ch = rng.choice(["leave", "assign", "accum", "zero", "zero"])
                script.append({"p": path + [c], "ch": ch, "v": rng.randint(1, 2) if ch in ("assign", "accum") else 0})
            else:
                ch = rng.choice(["leave", "descend", "descend", "descend"])
                script.append({"p": path + [c], "ch": ch, "v": 0})
                if ch == "descend":
                    rec(p, path + [c], lvl - 1)
    rec(a_tree, [], depth)
    return script


def execute_session(case):
    """several tensors that take turns as destination and source of populate loops (a tensor that was a source becomes a destination whose leaves are reset, then a
    source again ...).  Every step is logged as a program of its own whose z0 / a are the projected states of the real objects just before the step."""
    import random
    depth = case["depth"]
    ts = [proj.build_tensor(t, IDS[:depth], name="T%d" % k) for k, t in enumerate(case["trees"])]
    recs = []
    for n, st in enumerate(case["steps"]):
        zt, at = ts[st["dst"]], ts[st["src"]]
        z0 = proj.strip(proj.proj_tensor(zt)["root"])
        a0 = proj.strip(proj.proj_tensor(at)["root"])
        sc = gen_script(a0, depth, random.Random(st["seed"]))
        b = {"tid": 0, "z0": z0, "a": a0, "script": sc}
        script = {tuple(x["p"]): x for x in sc}
        r = run_on(b, zt.getRoot(), at.getRoot(), (lambda zt=zt: proj.proj_tensor(zt)), (lambda at=at: proj.proj_tensor(at)), script, depth, "tensor", 0, 0)
        r["session_step"] = n + 1
        recs.append(r)
        if r["exc"] != "ok":
            break
    return {"tid": case["tid"], "records": recs}
