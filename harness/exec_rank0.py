"""Executor for rank-0 tensors (C03): Tensor-level point access on a tensor without ranks."""
import sys

sys.path.insert(0, __import__("os").environ.get("VERIF_REPO", "/repo"))
from fibertree import Payload, Tensor  # noqa: E402


def execute(case):
    out = {"tid": case["tid"], "v0": case["v0"], "steps": []}
    t = Tensor.fromUncompressed([], case["v0"]) if case["ctor"] == "fromUncompressed" else Tensor(rank_ids=[])
    if case["ctor"] != "fromUncompressed":
        r = t.getPayloadRef()
        r <<= case["v0"]
    box = t.getRoot()
    for s in case["steps"]:
        ev = dict(s)
        ev["exc"] = "ok"
        try:
            if s["op"] == "get":
                p = t.getPayload()
                ev["res"] = int(Payload.get(p))
            else:
                r = t.getPayloadRef()
                if s["kind"] == "assign":
                    r <<= s["v"]
                elif s["kind"] == "add":
                    r += s["v"]
                else:
                    r *= s["v"]
            ev["post"] = int(Payload.get(t.getRoot()))
            ev["sameobj"] = 1 if t.getRoot() is box else 0
        except BaseException as ex:  # noqa: B036
            ev["exc"] = "err:" + type(ex).__name__
            ev.setdefault("res", -999)
            ev.setdefault("post", -999)
            ev.setdefault("sameobj", 0)
        ev.setdefault("res", 0)
        out["steps"].append(ev)
    return out
