"""C20 - encoding a tensor in a compression format loses nothing"""
import itertools
from . import tlc, family
from .c05 import rand_tree
from .c09 import small_trees, classify_tree


def canon(t):
    """the codec takes tensors as built by the constructors; explicit defaults / empty sub-fibers are kept (they must not matter)"""
    return t


def run(ctx):
    rng = ctx.rng
    design = []
    states = 0
    for d, nc in ((1, 3), (2, 2)):
        cfg = tlc.write_cfg(f"MC_Codec_{d}.cfg", f"CONSTANTS\n NC = {nc}\n DEPTH = {d}\nINIT Init\nNEXT Next\nINVARIANT DesignOK\nCHECK_DEADLOCK FALSE\n")
        r = tlc.model_check("MC_Codec.tla", cfg, name=f"codec{d}", workers=4)
        design.append(family.design_entry("MC_Codec", f"depth {d}", r, "exhaustive: Decode(Encode(t)) = Content(t) and every stored word is consumed exactly once, for every "
                                          "tensor and descriptor over {U,C,B}, with and without a larger imposed shape", ["DesignOK"]))
        states += r["stats"]["distinct"]
    cases = []
    trees = [(1, t) for t in small_trees(1, 3)] + [(2, t) for t in small_trees(2, 2)]
    t3 = small_trees(3, 2)
    trees += [(3, t) for t in rng.sample(t3, 60 if ctx.quick else 1500)]
    for _ in range(60 if ctx.quick else 1500):
        d = rng.choice([2, 3])
        trees.append((d, rand_tree(rng, 4, d)))
    wide = []
    for _ in range(120 if ctx.quick else 2500):
        d = rng.choice([1, 2])
        wide.append((d, rand_tree(rng, 9, d, pabs=0.25)))
    for depth, t in wide:
        for desc in itertools.product("UCB", repeat=depth):
            if "C" in desc:
                cases.append({"tree": t, "depth": depth, "desc": list(desc), "base_shape": [9] * depth, "shape": [9] * depth, "impose": 0})
    for depth, t in trees:
        nc = 4
        descs = list(itertools.product("UCB", repeat=depth))
        if ctx.quick and depth == 3:
            descs = rng.sample(descs, 9)
        for desc in descs:
            impose = rng.choice([0, 1])
            base = [nc] * depth
            shape = [nc + (rng.choice([0, 1, 2]) if impose else 0) for _ in range(depth)]
            cases.append({"tree": t, "depth": depth, "desc": list(desc), "base_shape": base, "shape": shape, "impose": impose})
    # tensors whose leaf default is 7 (an empty position of an uncompressed leaf rank then holds 7, a stored 0 is content)
    for c in list(cases):
        if rng.random() < 0.25:
            cases.append(dict(c, dflt=7))
    # bit-vector ranks wider than one mask word (shapes 33-70, a few coordinates)
    for _ in range(150 if ctx.quick else 3000):
        depth = rng.choice([1, 2])
        w = rng.choice([33, 40, 64, 65, 70])
        def wt(d):
            cs = sorted(rng.sample(range(w), rng.randint(0, 4)))
            return {"k": "F", "e": [[c, ({"k": "L", "v": rng.randint(1, 3)} if d == 1 else wt(d - 1))] for c in cs]}
        t = wt(depth)
        desc = [rng.choice("UCB") for _ in range(depth)]
        desc[rng.randrange(depth)] = "B"
        cases.append({"tree": t, "depth": depth, "desc": desc, "base_shape": [w] * depth, "shape": [w] * depth, "impose": 0})
    part = family.run_family(ctx, "C20", cases, "harness.exec_codec", "CodecTrace.tla", "CodecTrace.cfg",
                             op_of=lambda c, lg, st: "".join(c["desc"]), where_of=lambda c, lg, st: classify_tree(c["tree"]) + (":imposed" if c["impose"] else "") + (":dflt7" if c.get("dflt") else "") + (":wide" if c["shape"][0] > 32 else ""),
                             nontrivial=lambda c, lg: bool(c["tree"]["e"]))
    res = {"design": design, "states": states, "transitions": states, "exhaustive": False,
           "rule": "a case is (tensor, descriptor over {U,C,B}, optional larger imposed shape): the real codec encodes it, the arrays are decoded by the TLA+ layout, "
                   "and every encoded fiber is scanned through its handle interface, looked up (C) and sized; tensors: all one-level trees over 3 and two-level trees "
                   "over 2 coordinates (all-zero tensor, empty fibers, explicit defaults), sampled three-level trees, random 4-coordinate trees; all 3^depth descriptors",
           "assumptions": ["formats T, H, R are outside the statement", "the count of child handles of an interior fiber is not pinned (the formats disagree)",
                           "swoop_util cannot be imported (needs boltons); its encode wrapper is reproduced with a dict-backed cache"],
           "scope": {"cases": len(cases)}}
    return family.merge(res, part)


def replay(ctx, rec):
    return family.replay_family(ctx, "C20", rec, "harness.exec_codec", "CodecTrace.tla", "CodecTrace.cfg")
