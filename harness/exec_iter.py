"""Executor for traversal cases (C07)."""
import sys

sys.path.insert(0, __import__("os").environ.get("VERIF_REPO", "/repo"))
from fibertree import Fiber, Payload, Tensor  # noqa: E402
from . import proj  # noqa: E402


def warm_up(f):
    """every traversal and query once: whatever the fiber might remember about its extent, it remembers now"""
    _ = f.getActive(), f.getShape(), f.estimateShape(), f.maxCoord(), f.minCoord(), f.isEmpty(), len(f)
    for it in (f.iterOccupancy(), f.iterActive(), f.iterActiveShape(), f.iterShape(), iter(f), f.iterActiveShapeRef() if False else ()):
        for _x in it:
            pass


def build(tree, case, oids, name="T"):
    w = case.get("warm")
    if w is not None and name == "T" and len(tree["e"]) > w:
        # the fiber is built from its first w elements, traversed and queried, and only then grown to the case's content by appends
        f, pf = build({"k": "F", "e": tree["e"][:w]}, dict(case, warm=None), oids, name)
        warm_up(f)
        for c, p in tree["e"][w:]:
            f.append(c, p["v"])
        return f, pf
    shape = case.get("shape", 6)
    act = tuple(case["act"]) if case.get("hasact") else None
    if case.get("emb") == "tensor1":
        t = proj.build_tensor(tree, ["K"], shape=[shape], name=name, default=case.get("dflt", 0))
        if case.get("fmt") == "U":
            t.setFormat("K", "U")
        f = t.getRoot()
        if act:
            f.setActive(act)
        return f, (lambda: proj.proj_tensor(t, oids))
    coords = [c for c, _ in tree["e"]]
    pls = [p["v"] for _, p in tree["e"]]
    f = Fiber(coords, pls, shape=None if case.get("noshape") else shape, active_range=act, default=case.get("dflt", 0))
    if case.get("fmt") == "U":
        f.getRankAttrs().setFormat("U")
    return f, (lambda: {"rank0": 0, "root": proj.proj_fiber(f, None, oids), "ranks": []})


def ylist(it, oids, poke=None, take=-1):
    """consumes a traversal, projecting every yield when it is delivered.  poke: set of ids of the payload objects the fiber stores - a delivered leaf that is
    none of them (a stand-in for an absent coordinate) is updated in place after it was recorded, as a loop body may do; take: stop after that many yields."""
    out = []
    if take == 0:
        return out            # the traversal is created but never advanced
    for c, p in it:
        out.append({"c": c, "p": proj.proj_payload(p, None, oids)})
        if poke is not None and isinstance(p, Payload) and id(p) not in poke:
            p += 5
        if take >= 0 and len(out) >= take:
            break
    return out


def stored_ids(f):
    return {id(p) for p in f.payloads}


def execute(case):
    oids = proj.Oids()
    kind, mode = case["kind"], case.get("mode", "")
    out = {k: v for k, v in case.items() if k not in ("f", "g")}
    out.update({"dflt": case.get("dflt", 0), "exc": "ok", "ys": [], "ys2": [], "mat": {"k": "F", "e": []}})
    for k, d in (("lo", 0), ("hi", 0), ("haslo", 1), ("hashi", 1), ("step", 1), ("sp", -1), ("fmt", "C"), ("shape", 6), ("hasact", 0), ("act", [0, 0]),
                 ("s", 1), ("o", 0), ("hasiv", 0), ("iv", [0, 0]), ("pred", ""), ("mode", ""), ("take", -1), ("poke", 0)):
        out.setdefault(k, d)
    try:
        f, pf = build(case["f"], case, oids)
        out["pre"] = pf()
        sp = None if out["sp"] == -1 else out["sp"]
        lo = out["lo"] if out["haslo"] else None
        hi = out["hi"] if out["hashi"] else None
        if kind == "iter":
            if mode == "occ":
                it = f.iterOccupancy(start_pos=sp)
            elif mode == "range":
                it = f.iterRange(lo, hi, start_pos=sp)
            elif mode == "active":
                it = f.iterActive(start_pos=sp)
            elif mode == "shape":
                it = f.iterShape()
            elif mode == "rangeshape":
                it = f.iterRangeShape(lo, hi, out["step"])
            elif mode == "activeshape":
                it = f.iterActiveShape()
            elif mode == "default":
                it = iter(f)
            out["ys"] = ylist(it, oids, poke=stored_ids(f) if case.get("poke") else None)
        elif kind == "iterref":
            if mode == "shaperef":
                it = f.iterShapeRef()
            elif mode == "rangeshaperef":
                it = f.iterRangeShapeRef(lo, hi, out["step"])
            else:
                it = f.iterActiveShapeRef()
            out["ys"] = ylist(it, oids, take=out["take"])
        elif kind == "coiter":
            g, pg = build(case["g"], case, oids, "G")
            out["pres"] = [out["pre"], pg()]
            fn = {"shape": Fiber.coiterShape, "shaperef": Fiber.coiterShapeRef, "activeshape": Fiber.coiterActiveShape,
                  "activeshaperef": Fiber.coiterActiveShapeRef}.get(mode)
            if fn:
                res = fn([f, g])
            elif mode == "rangeshape":
                res = Fiber.coiterRangeShape([f, g], lo, hi, out["step"])
            else:
                res = Fiber.coiterRangeShapeRef([f, g], lo, hi, out["step"])
            ys = []
            sto = [stored_ids(f), stored_ids(g)]
            for c, ps in (res if out["take"] != 0 else []):
                ys.append({"c": c, "ps": [proj.proj_payload(p, None, oids) for p in ps]})
                if case.get("poke") and "ref" not in mode:
                    for q, p in enumerate(ps):
                        if isinstance(p, Payload) and id(p) not in sto[q]:
                            p += 5
                if out["take"] >= 0 and len(ys) >= out["take"]:
                    break
            out["ys"] = ys
            out["posts"] = [pf(), pg()]
        elif kind == "project":
            s, o = out["s"], out["o"]
            kw = {}
            if out["hasiv"]:
                kw["interval"] = tuple(out["iv"])
            if sp is not None:
                kw["start_pos"] = sp
            r = f.project(trans_fn=lambda c: s * c + o, **kw)
            out["ys"] = ylist(r, oids)
            out["ys2"] = ylist(r, oids)
            out["mat"] = proj.proj_fiber(Fiber.fromLazy(r))
        elif kind == "prune":
            pred = {"evencoord": lambda i, c, p: c % 2 == 0, "bigval": lambda i, c, p: Payload.get(p) > 1,
                    "evenpos": lambda i, c, p: i % 2 == 0, "all": lambda i, c, p: True}[out["pred"]]
            r = f.prune(pred)
            out["ys"] = ylist(r, oids)
            out["ys2"] = ylist(r, oids)
            out["mat"] = proj.proj_fiber(Fiber.fromLazy(r))
        out["post"] = pf()
    except BaseException as ex:  # noqa: B036
        out["exc"] = "err:" + type(ex).__name__ + ":" + str(ex)[:80]
        for k in ("pre", "post"):
            out.setdefault(k, {"root": {"k": "F", "e": [], "id": 0}})
    out.setdefault("pres", [])
    out.setdefault("posts", [])
    return out
