"""C03 - point access behaves like a map from points to values"""
import json
from . import store_family as sf, tlc, exec_store

OPS = ["ref", "write", "hwrite", "get", "getpos", "fassign"]


def plan(ctx):
    if ctx.quick:
        return [dict(name="c03_d1", nc=3, depth=1, vmax=1, hlen=1, ops=OPS),
                dict(name="c03_d2", nc=2, depth=2, vmax=1, hlen=1, ops=OPS, sample=5000),
                # wide fibers: every legal search-start shortcut at every distance from its target
                dict(name="c03_w1", nc=6, depth=1, vmax=1, hlen=1, ops=["get", "getpos"], sample=5000),
                dict(name="c03_sim2", nc=2, depth=2, vmax=1, hlen=6, ops=OPS, simulate=240),
                dict(name="c03_sim3", nc=2, depth=3, vmax=1, hlen=5, ops=OPS, simulate=80)]
    return [dict(name="c03_d1", nc=4, depth=1, vmax=2, hlen=1, ops=OPS),
            dict(name="c03_d2", nc=2, depth=2, vmax=1, hlen=1, ops=OPS),
            dict(name="c03_w1", nc=7, depth=1, vmax=1, hlen=1, ops=["get", "getpos"], sample=60000),
            dict(name="c03_d1h2", nc=2, depth=1, vmax=1, hlen=2, ops=OPS, sample=30000),
            dict(name="c03_sim2", nc=3, depth=2, vmax=1, hlen=10, ops=OPS, simulate=3600, chunks=12),
            dict(name="c03_sim3", nc=2, depth=3, vmax=1, hlen=8, ops=OPS, simulate=1800, chunks=12)]


def run(ctx):
    res = sf.run_store(ctx, "C03", ["fiber", "tensor"], plan(ctx), validator=("MapTrace.tla", "MapTrace.cfg"), ids=True, wide=2500 if ctx.quick else 30000)
    # rank-0 tensors: Tensor-level delegation to the single boxed value
    from . import family
    r0 = []
    for _ in range(200 if ctx.quick else 3000):
        steps = []
        for _ in range(ctx.rng.randint(1, 6)):
            if ctx.rng.random() < 0.4:
                steps.append({"op": "get"})
            else:
                steps.append({"op": "write", "kind": ctx.rng.choice(["assign", "add", "mul"]), "v": ctx.rng.randint(0, 3)})
        r0.append({"v0": ctx.rng.randint(0, 3), "ctor": ctx.rng.choice(["fromUncompressed", "empty"]), "steps": steps})
    part = family.run_family(ctx, "C03", r0, "harness.exec_rank0", "Rank0Trace.tla", "Rank0Trace.cfg", op_of=lambda c, lg, st: "rank0", where_of=lambda c, lg, st: "tensor0",
                             name="C03_rank0")
    res["violations"] += part["violations"]
    for k in ("traces", "evaluations", "states", "transitions"):
        res[k] += part[k]
    res["scope"]["rank0_histories"] = len(r0)
    res["assumptions"] = ["start_pos legal per the documented precondition (position holds a coordinate <= the one searched; 0 always legal)",
                          "caller-supplied default (allocate=False, default=7) is what an absent point reads as; a stored explicit default reads as 0",
                          "raw (unowned) fibers at depth 1, deeper trees through tensors (an empty unowned fiber cannot know its depth)"]
    return res


def replay(ctx, rec):
    if rec.get("op") == "rank0":
        from . import family
        return family.replay_family(ctx, "C03", rec, "harness.exec_rank0", "Rank0Trace.tla", "Rank0Trace.cfg")
    return sf.replay_store(ctx, rec, "C03", validator=("MapTrace.tla", "MapTrace.cfg"), ids=True)
