"""C03 - point access behaves like a map from points to values"""
import json
from . import store_family as sf, tlc, exec_store

OPS = ["ref", "write", "hwrite", "get", "getpos", "fassign"]


def plan(ctx):
    if ctx.quick:
        return [dict(name="c03_d1", nc=3, depth=1, vmax=1, hlen=1, ops=OPS),
                dict(name="c03_d2", nc=2, depth=2, vmax=1, hlen=1, ops=OPS, sample=5000),
                # wide fibers: every legal search-start shortcut at every distance from its target
                dict(name="c03_w1", nc=6, depth=1, vmax=1, hlen=1, ops=["get", "getpos"], sample=5000),
                dict(name="c03_sim2", nc=2, depth=2, vmax=1, hlen=6, ops=OPS, simulate=240),
                dict(name="c03_sim3", nc=2, depth=3, vmax=1, hlen=5, ops=OPS, simulate=80)]
    return [dict(name="c03_d1", nc=4, depth=1, vmax=2, hlen=1, ops=OPS),
            dict(name="c03_d2", nc=2, depth=2, vmax=1, hlen=1, ops=OPS),
            dict(name="c03_w1", nc=7, depth=1, vmax=1, hlen=1, ops=["get", "getpos"], sample=60000),
            dict(name="c03_d1h2", nc=2, depth=1, vmax=1, hlen=2, ops=OPS, sample=30000),
            dict(name="c03_sim2", nc=3, depth=2, vmax=1, hlen=10, ops=OPS, simulate=3600, chunks=12),
            dict(name="c03_sim3", nc=2, depth=3, vmax=1, hlen=8, ops=OPS, simulate=1800, chunks=12)]


def run(ctx):
    res = sf.run_store(ctx, "C03", ["fiber", "tensor"], plan(ctx), validator=("MapTrace.tla", "MapTrace.cfg"), ids=True, wide=2500 if ctx.quick else 30000, share=400 if ctx.quick else 6000)
    # rank-0 tensors: Tensor-level delegation to the single boxed value
    from . import family
    r0 = []
    for _ in range(200 if ctx.quick else 3000):
        steps = []
        for _ in range(ctx.rng.randint(1, 6)):
            if ctx.rng.random() < 0.4:
                steps.append({"op": "get"})
            else:
                steps.append({"op": "write", "kind": ctx.rng.choice(["assign", "add", "mul"]), "v": ctx.rng.randint(0, 3)})
        r0.append({"v0": ctx.rng.randint(0, 3), "ctor": ctx.rng.choice(["fromUncompressed", "empty"]), "steps": steps})
    part = family.run_family(ctx, "C03", r0, "harness.exec_rank0", "Rank0Trace.tla", "Rank0Trace.cfg", op_of=lambda c, lg, st: "rank0", where_of=lambda c, lg, st: "tensor0",
                             name="C03_rank0")
    res["violations"] += part["violations"]
    for k in ("traces", "evaluations", "states", "transitions"):
        res[k] += part[k]
    res["scope"]["rank0_histories"] = len(r0)
    # any leaf default (zero, non-zero, fractional, float zero): histories of writes through fresh references and kept handles, reads of unwritten points
    dc = []
    rng = ctx.rng
    for _ in range(600 if ctx.quick else 8000):
        depth = rng.choice([1, 2])
        steps = []
        refs = []
        for n in range(1, rng.randint(3, 7) + 1):
            pt = [rng.randint(0, 2) for _ in range(depth)]
            op = rng.choice(["get", "getdflt", "ref", "write", "write", "hwrite"])
            if op == "hwrite" and not refs:
                op = "write"
            st = {"op": op, "pt": pt}
            if op == "ref":
                refs.append(n)
            if op in ("write", "hwrite"):
                kind = rng.choice(["assign", "add", "mul"])
                st.update({"kind": kind, "w2": rng.choice([0, 2, 4]) if kind == "mul" else rng.choice([0, 1, 2, 3, 4, -2]), "wfloat": rng.choice([0, 1])})
                if op == "hwrite":
                    st["h"] = rng.choice(refs)
            steps.append(st)
        dc.append({"depth": depth, "dflt2": rng.choice([0, 0, 4, 1, 3]), "asfloat": rng.choice([0, 1]), "steps": steps})
    part2 = family.run_family(ctx, "C03", dc, "harness.exec_dflt", "DefaultTrace.tla", "DefaultTrace.cfg", op_of=lambda c, lg, st: "dflt-history",
                              where_of=lambda c, lg, st: f"tensor:depth{c['depth']}:dflt2={c['dflt2']}" + (":float" if c["asfloat"] else ""), name="C03_dflt")
    res["violations"] += part2["violations"]
    for k in ("traces", "evaluations", "states", "transitions"):
        res[k] += part2[k]
    res["scope"]["default_histories"] = len(dc)
    res["assumptions"] = ["start_pos legal per the documented precondition (position holds a coordinate <= the one searched; 0 always legal)",
                          "caller-supplied default (allocate=False, default=7) is what an absent point reads as; a stored explicit default reads as 0",
                          "raw (unowned) fibers at depth 1, deeper trees through tensors (an empty unowned fiber cannot know its depth)"]
    return res


def replay(ctx, rec):
    if rec.get("op") == "dflt-history":
        from . import family
        return family.replay_family(ctx, "C03", rec, "harness.exec_dflt", "DefaultTrace.tla", "DefaultTrace.cfg")
    if rec.get("op") == "rank0":
        from . import family
        return family.replay_family(ctx, "C03", rec, "harness.exec_rank0", "Rank0Trace.tla", "Rank0Trace.cfg")
    return sf.replay_store(ctx, rec, "C03", validator=("MapTrace.tla", "MapTrace.cfg"), ids=True)
