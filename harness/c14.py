"""C14 - rank ids, shapes, defaults, formats and active ranges follow the data"""
import itertools
from . import tlc, family
from .c05 import rand_tree
from .c09 import classify_tree


def canonical_tree(rng, depth):
    """no explicit defaults, no empty sub-fibers (irregular trees are C09's subject)"""
    def prune(p):
        if p["k"] == "L":
            return p
        e = [[c, prune(q)] for c, q in p["e"]]
        return {"k": "F", "e": [[c, q] for c, q in e if q["k"] == "L" or q["e"]]}
    return prune(rand_tree(rng, 4, depth, pz=0.0, pabs=0.3))


def run(ctx):
    rng = ctx.rng
    cfg = tlc.write_cfg("MC_Attrs_run.cfg", "INIT Init\nNEXT Next\nINVARIANT DesignOK\nCHECK_DEADLOCK FALSE\n")
    r = tlc.model_check("MC_Attrs.tla", cfg, workers=2)
    design = [family.design_entry("MC_Attrs", "rules", r, "exhaustive over shapes 2..4 x depths: permutation / swap rules invert, flatten and split rules keep components", ["DesignOK"])]
    cases = []
    n = 1200 if ctx.quick else 8000
    for _ in range(n):
        depth = rng.choice([2, 3, 3, 4])          # depth 4: flattened ids / shapes with three and four components, unflattened level by level
        t = canonical_tree(rng, depth)
        base = {"kind": "transform", "tree": t, "depth": depth, "shape": [rng.randint(4, 6) for _ in range(depth)], "auth": rng.choice([1, 1, 0]),
                "dflt": rng.choice([0, 0, 7]), "fmts": [rng.choice(["C", "U"]) for _ in range(depth)], "mutable": rng.choice([0, 1])}
        d = rng.randint(0, depth - 2)
        sd = rng.randint(0, depth - 1)
        cases.append(dict(base, op="splitswizzle", d=sd, step=rng.randint(1, 3), guide=list(rng.choice(list(itertools.permutations(range(1, depth + 2)))))))
        if depth == 3:
            cases.append(dict(base, op="flatflat"))
        for op in ("split", "flatten", "merge", "unflatten", "swizzle", "swap"):
            c = dict(base, op=op)
            if op == "split":
                c.update({"d": rng.randint(0, depth - 1), "splitkind": rng.choice(["uniform", "equal", "nonuniform", "unequal"]), "step": rng.randint(1, 3), "rel": rng.choice([0, 0, 1])})
            elif op in ("flatten", "unflatten"):
                L = rng.randint(1, depth - 1 - d)
                c.update({"d": d, "levels": L, "style": rng.choice((["tuple", "pair", "linear"] if base["auth"] else ["tuple", "pair"]) if op == "flatten" else ["tuple", "pair"])})
            elif op == "merge":
                c.update({"d": rng.randint(0, depth - 1), "levels": 1, "style": rng.choice(["absolute", "relative"]), "step": rng.randint(1, 3)})
            elif op == "swizzle":
                c["guide"] = list(rng.choice(list(itertools.permutations(range(1, depth + 1)))))
            else:
                c["d"] = d
            cases.append(c)
    for _ in range(n):
        t1, t2 = rand_tree(rng, 6, 1, pabs=0.3), rand_tree(rng, 6, 1, pabs=0.3)
        lo = rng.randint(0, 3)
        c = {"kind": "lazy", "tree": t1, "tree2": t2, "shape": 7, "op": rng.choice(["and", "or", "xor", "sub", "lshift", "intersection", "union", "prune", "project", "coitershape", "coiteractiveshape", "coiterrangeshape"]),
             "act_a": rng.choice([None, [lo, rng.randint(lo + 1, 7)]]), "act_b": rng.choice([None, [1, 6]])}
        if c["op"] == "project":
            s = rng.choice([1, 2, -1])
            c.update({"s": s, "o": rng.randint(0, 3) + (12 if s < 0 else 0), "hasiv": rng.choice([0, 1]), "iv": [2, 9], "target": rng.choice(["", "T"])})
        cases.append(c)
    for _ in range(n // 2):
        depth = rng.choice([1, 2])
        how = rng.choice(["fromFiber", "setRoot"])
        # a tensor shape smaller than the joining fiber's own declared shape: only through setRoot (an explicit shape= argument of fromFiber that is
        # smaller than the data is the caller's contradiction, not the library's)
        cases.append({"kind": "owner", "tree": rand_tree(rng, 4, depth, pz=0.0, pabs=0.2), "depth": depth, "fdflt": rng.choice([0, 3]), "tdflt": rng.choice([0, 9]),
                      "fshape": 5, "tshape": rng.choice([3, 5, 8] if how == "setRoot" else [5, 8]), "how": how, "touch": rng.choice([0, 1])})
    # tensors built from nests without a declared shape, rectangular and ragged across parents
    for _ in range(n // 3):
        depth = rng.choice([2, 3])
        def nest(d, width):
            if d == 1:
                return [rng.choice([0, 0, 1, 2]) for _ in range(width)]
            w = rng.randint(1, 4)                   # the width of THIS parent's sub-lists
            return [nest(d - 1, w) for _ in range(width)]
        cases.append({"kind": "ctor", "depth": depth, "nest": nest(depth, rng.randint(1, 3))})
        if rng.random() < 0.5:
            # the empty constructor, populated in two or three phases with growing coordinates and shape queries in between
            hi = 2
            phases = []
            for _ in range(rng.randint(2, 3)):
                phases.append([[rng.randint(0, hi) for _ in range(depth)] for _ in range(rng.randint(1, 3))])
                hi += rng.randint(1, 4)
            cases.append({"kind": "ctor", "depth": depth, "nest": [], "how": "empty", "phases": phases})
    part = family.run_family(ctx, "C14", cases, "harness.exec_attrs", "AttrsTrace.tla", "AttrsTrace.cfg",
                             op_of=lambda c, lg, st: c.get("op", c["kind"]) + (":" + c["style"] if "style" in c else "") + (":" + c["splitkind"] if "splitkind" in c else ""),
                             where_of=lambda c, lg, st: c["kind"] + (":" + classify_tree(c["tree"]) if c["kind"] == "transform" else "") + (":rel" if c.get("rel") else "")
                             + (":noauth" if c.get("auth") == 0 else ""))
    res = {"design": design, "states": r["stats"]["distinct"], "transitions": r["stats"]["generated"], "exhaustive": False,
           "rule": "a case is one transform on a tensor with random attributes (declared or estimated shape, default 0 / 7, per-rank formats, mutability), one lazily "
                   "produced fiber (merge operators, populate, prune, projections with and without interval) with explicit active ranges, or a fiber joining a tensor; "
                   "seeded random; every result fiber contributes its coordinates, shape, active range and active / occupancy iteration",
           "assumptions": ["rank ids of ordinary (unflattened) operands", "names and colours are not part of the statement"], "scope": {"cases": len(cases)}}
    return family.merge(res, part)


def replay(ctx, rec):
    return family.replay_family(ctx, "C14", rec, "harness.exec_attrs", "AttrsTrace.tla", "AttrsTrace.cfg")
