"""C02 - a tensor's rank bookkeeping always mirrors its fibertree"""
from . import store_family as sf

OPS = sf.C02_OPS + ["obs"]
CTORS = ["tensor:fromFiber", "tensor:deepcopy", "tensor:empty", "tensor:fromUncompressed", "tensor:yaml", "tensor:swizzle", "tensor:setRoot"]


def plan(ctx):
    if ctx.quick:
        return [dict(name="c02_d2", nc=2, depth=2, vmax=1, hlen=1, ops=OPS, sample=2500),
                dict(name="c02_sim2", nc=2, depth=2, vmax=1, hlen=5, ops=OPS, simulate=160),
                dict(name="c02_sim3", nc=2, depth=3, vmax=1, hlen=4, ops=OPS, simulate=64)]
    return [dict(name="c02_d2", nc=2, depth=2, vmax=1, hlen=1, ops=OPS),
            dict(name="c02_d1", nc=3, depth=1, vmax=1, hlen=1, ops=OPS),
            dict(name="c02_sim2", nc=3, depth=2, vmax=1, hlen=8, ops=OPS, simulate=2400, chunks=12),
            dict(name="c02_sim3", nc=2, depth=3, vmax=1, hlen=7, ops=OPS, simulate=1200, chunks=12)]


def run(ctx):
    res = sf.run_store(ctx, "C02", CTORS, plan(ctx), wide=700 if ctx.quick else 10000, wide_ops=("get", "getpos", "ref", "write", "clear", "obs"), cache=250 if ctx.quick else 4000)
    from . import c05
    viol, n, ev, vst = c05.side_check(ctx, "C02", "P:C05:member-throughout", "P:C02:populate-rank-mirror")
    res["violations"] += viol
    res["traces"] += n
    res["evaluations"] += ev
    res["states"] += vst["distinct"]
    res["transitions"] += vst["generated"]
    res["scope"]["populate_programs"] = n
    if getattr(ctx, "round", 0) == 0:
        from . import suite_family, family
        part = suite_family.run_suite(ctx, "C02")
        res["scope"]["suite"] = part["suite"]
        family.merge(res, part)
    res["assumptions"] = ["constructors covered: empty+insertions, fromFiber, setRoot, fromUncompressed, fromYAMLfile, deepcopy, swizzle round trip "
                          "(other transform results are judged by C09's result-wf clause with the same RankMirror predicate)",
                          "order of fibers inside a rank list is not constrained",
                          "populate loops: C05's programs evaluate the same RankMirror predicate at every loop step"]
    return res


def replay(ctx, rec):
    if "suite_event" in rec.get("behaviour", {}):
        from . import suite_family
        return suite_family.replay_suite(ctx, "C02", rec)
    if rec.get("pop"):
        from . import c05
        return c05.replay(ctx, rec)
    return sf.replay_store(ctx, rec, "C02")
