"""Executor for equality / emptiness / counting cases (C12)."""
import copy
import sys

sys.path.insert(0, __import__("os").environ.get("VERIF_REPO", "/repo"))
from fibertree import Fiber, Payload, Tensor  # noqa: E402
from . import proj  # noqa: E402

IDS = ["K", "M", "N"]


def build(tree, depth, emb, d, ids, shape=None, late=0):
    if emb == "tensor" and late:
        # fibers built with their own (zero) default join a tensor whose leaf rank declares default d: from then on the rank's default is THE default
        t = Tensor.fromFiber(rank_ids=list(ids[:depth]), fiber=proj.build_fiber(tree, 0), shape=shape, default=proj.real(d), name="T")
        return t, t.getRoot(), (lambda: proj.proj_tensor(t))
    if emb == "tensor":
        t = proj.build_tensor(tree, ids[:depth], default=d, shape=shape)
        return t, t.getRoot(), (lambda: proj.proj_tensor(t))
    f = proj.build_fiber(tree, default=d, shape=shape)
    return f, f, (lambda: {"rank0": 0, "root": proj.proj_fiber(f), "ranks": []})


def leaves(tree, prefix=()):
    for c, q in tree["e"]:
        if q["k"] == "F":
            yield from leaves(q, prefix + (c,))
        elif q["k"] == "L":
            yield prefix + (c,), q["v"]


def ask_everything(x, other, r):
    """one pass of every content question on x and on each fiber below r (whatever an implementation might remember, it remembers now)"""
    _ = (x == other), (other == x), (x != other), (x == x)
    def walk(f):
        _ = f.isEmpty(), f.countValues(), f.countValues(recursive=False), f.nonEmpty(), len(f), f.maxCoord(), f.minCoord(), f.getActive(), f.estimateShape()
        for q in f.payloads:
            if isinstance(q, Fiber):
                walk(q)
    walk(r)


def execute(case):
    depth, d = case["depth"], case.get("d", 0)
    ea, eb = case.get("emb_a", "fiber"), case.get("emb_b", "fiber")
    out = {"tid": case["tid"], "a": case["a"], "b": case["b"], "c": case.get("c", case["b"]), "d": d, "depth": depth, "exc": "ok",
           "tensors": 1 if (ea == "tensor" and eb == "tensor") else 0, "sameids": 0 if case.get("diffids") else 1}
    proj.VALUE_MAP = proj.VALUE_MAPS.get(case.get("vmap", ""))
    try:
        ids_b = ["X", "Y", "Z"] if case.get("diffids") else IDS
        late = case.get("latedflt", 0)
        A, ra, pa = build(case["a"], depth, ea, d, IDS, case.get("shape_a"), late)
        Bo, rb, pb = build(case["b"], depth, eb, d, ids_b, case.get("shape_b"), late)
        C, rc, pc = build(out["c"], depth, eb, d, ids_b, None, late)
        # compare like with like: tensor==tensor, otherwise the root fibers (ownership must not matter)
        xa, xb, xc = (A, Bo, C) if out["tensors"] else (ra, rb, rc)
        if case.get("a2"):
            # asked, then changed in place through references (no element added or removed), then asked again: the recorded answers are about the tree as it is NOW
            ask_everything(xa, xb, ra)
            new = dict(leaves(case["a2"]))
            for pt, v in leaves(case["a"]):
                if new[pt] != v:
                    ref = ra.getPayloadRef(*pt)
                    ref <<= proj.real(new[pt])
            out["a"] = case["a2"]
        out["pre"] = [pa(), pb()]
        out["eq_ab"] = bool(xa == xb)
        out["eq_ba"] = bool(xb == xa)
        out["ne_ab"] = bool(xa != xb)
        out["eq_aa"] = bool(xa == xa)
        out["eq_copy"] = bool(copy.deepcopy(xa) == xa) and bool(xa == copy.deepcopy(xa))
        # the owner-less copy of a fiber (what a tensor makes of a root that already belongs to another tensor) is a copy like any other
        for pres in (True, False):
            c2 = ra.copy(preserve_owner=pres)
            out["eq_copy"] = out["eq_copy"] and bool(c2 == ra) and bool(ra == c2) and int(c2.countValues()) == int(ra.countValues()) and bool(c2.isEmpty()) == bool(ra.isEmpty())
        out["eq_bc"] = bool(xb == xc)
        out["eq_ac"] = bool(xa == xc)
        out["empty_a"] = bool(ra.isEmpty())
        out["count_a"] = int(A.countValues())
        out["count_nr"] = int(ra.countValues(recursive=False))
        ne = ra.nonEmpty()
        out["ne_a"] = proj.proj_fiber(ne)
        out["eq_ne"] = bool(ne == ra) and bool(ra == ne)
        out["post"] = [pa(), pb()]
    except BaseException as ex:  # noqa: B036
        out["exc"] = "err:" + type(ex).__name__ + ":" + str(ex)[:80]
        for k in ("eq_ab", "eq_ba", "ne_ab", "eq_aa", "eq_copy", "eq_bc", "eq_ac", "empty_a", "eq_ne"):
            out.setdefault(k, False)
        out.setdefault("count_a", 0)
        out.setdefault("count_nr", 0)
        out.setdefault("ne_a", {"k": "F", "e": []})
        out.setdefault("pre", [])
        out.setdefault("post", [])
    finally:
        proj.VALUE_MAP = None
    return out
