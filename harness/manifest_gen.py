"""Regenerates MANIFEST.json from the table below (one entry per claimed property)."""
import json, os
ROOT = os.path.dirname(os.path.dirname(os.path.abspath(__file__)))
props = [json.loads(l) for l in open(os.path.join(ROOT, "properties.jsonl"))]

CLAIMED = {
 "C01": dict(
   text="TLC checks the FTStore state machine (one action per public mutator, operational definitions written after the code) against the declarative "
        "statement on every transition from every tree of a bounded scope, emits every such transition and simulated longer histories, which are executed "
        "on the real API; StoreTrace.tla then validates the recorded trace: each call must be a step of the spec and well-formedness / boxing / uniform "
        "depth / rejected-means-unchanged are evaluated on the implementation's projected state after every single call. Small-scope exhaustive + "
        "simulation, not a proof.",
   note="trusted: harness/proj.py (projection), exec_store.py (faithful API calls), TLC + CommunityModules Json; scope: 2-4 coordinates, depth<=3, "
        "values 0..2, histories <=10; populate bodies are covered by C05's programs",
   technique="TLA+ state machine (FTStore) model-checked with TLC; TLC-generated behaviours replayed on the code; trace validation with TLC",
   design="5/C01", engines=["FTStore"]),
}

ENGINES = {
 "FTStore": dict(path="spec/FTStore.tla", kind="TLA+ spec (state machine of the mutable fibertree) + MC_Store.tla (design-level/generator) + StoreTrace.tla (trace validator)"),
}

def main():
    checks = []
    served = {}
    for pid, c in CLAIMED.items():
        for e in c["engines"]:
            served.setdefault(e, []).append(pid)
        checks.append({
            "property_id": pid,
            "quick_cmd": f"./bin/check {pid} --tier quick",
            "thorough_cmd": f"./bin/check {pid} --tier thorough",
            "evidence_file": f"/verif/evidence/{pid}.json",
            "replay_cmd_template": f"./bin/check {pid} --replay {{path}}",
            "engine": c["engines"][0],
            "level_claimed": {"category": "model_checking", "text": c["text"], "design_ref": c["design"]},
            "level_note": c["note"],
            "technique": c["technique"],
        })
    na = [{"property_id": p["id"], "reason": "check not built yet (work in progress; DESIGN.md section 9 gives the build order)"}
          for p in props if p["id"] not in CLAIMED]
    m = {"version": 1, "setup_cmd": "./bin/setup",
         "hooks": {"guard": "FIBERTREE_VERIF",
                   "enable": "no source hooks are needed: the library is pure Python, the checks import /repo's working tree directly (sys.path) and observe public state; bin/check exports FIBERTREE_VERIF=1 for uniformity",
                   "baseline_off_cmd": "cd /repo && /venv/bin/python -m pytest -ra -q -p no:cacheprovider --timeout=900 --continue-on-collection-errors",
                   "source_commits": [], "add_only": True},
         "engines": [{"name": k, "path": v["path"], "serves_properties": sorted(served.get(k, [])), "kind_free_text": v["kind"]} for k, v in ENGINES.items()],
         "checks": checks, "not_applicable": na,
         "notes": "model-based verification with explicit TLA+ specifications (spec/*.tla), TLC, and two-way conformance against /repo; see DESIGN.md"}
    json.dump(m, open(os.path.join(ROOT, "MANIFEST.json"), "w"), indent=1)
    print("claimed", len(checks), "not_applicable", len(na))

if __name__ == "__main__":
    main()
