"""C05 - populate (z << a) offers exactly a's coordinates and keeps only what was written"""
import concurrent.futures as cf
import json

from . import tlc, exec_pop


def gen(name, nc, depth, emit, modulus, rem, workers=1, timeout=3000, dz=0, da=0):
    cfg = tlc.write_cfg(f"MC_Pop_{name}.cfg",
                        f"CONSTANTS\n NC = {nc}\n DEPTH = {depth}\n EMIT = {'TRUE' if emit else 'FALSE'}\n MODULUS = {modulus}\n REM = {rem}\n DZ = {dz}\n DA = {da}\n"
                        "INIT Init\nNEXT Next\nINVARIANT DesignOK\nCHECK_DEADLOCK FALSE\n")
    r = tlc.model_check("MC_Pop.tla", cfg, name="pop_" + name, workers=workers, timeout=timeout)
    if not r["ok"]:
        raise tlc.TLCError("design-level model MC_Pop violated or failed:\n" + r["out"][-3000:])
    return r


def _exec(b):
    from . import family
    return family.guarded(exec_pop.execute, b)


def rand_tree(rng, nc, depth, pz=0.25, pabs=0.35, dflt=0):
    e = []
    for c in range(nc):
        if rng.random() < pabs:
            continue
        if depth == 1:
            e.append([c, {"k": "L", "v": dflt if rng.random() < pz else rng.randint(1, 2)}])
        else:
            e.append([c, rand_tree(rng, nc, depth - 1, pz, pabs, dflt)])
    return {"k": "F", "e": e}


def present_paths(t, depth, path=(), dflt=0):
    """paths the source can offer (non-empty elements), computed on the abstract input tree by the same rule the generator
    uses to build scripts; not an oracle: the validator recomputes offers itself"""
    def empty(p):
        return p["v"] == dflt if p["k"] == "L" else all(empty(q) for _, q in p["e"])
    out = []
    for c, p in t["e"]:
        if empty(p):
            continue
        out.append((path + (c,), p["k"]))
        if p["k"] == "F":
            out += present_paths(p, depth - 1, path + (c,), dflt)
    return out


def rand_program(rng, nc, depth):
    dz = rng.choice([0, 0, 5])
    da = rng.choice([0, 0, 3])
    z0 = rand_tree(rng, nc, depth, dflt=dz)
    a = rand_tree(rng, nc, depth, pz=0.2, pabs=0.25, dflt=da)
    script = []
    for p, k in present_paths(a, depth, dflt=da):
        if k == "F":
            ch = rng.choice(["leave", "descend", "descend", "descend"])
            script.append({"p": list(p), "ch": ch, "v": 0})
        else:
            ch = rng.choice(["leave", "assign", "accum", "zero"])
            script.append({"p": list(p), "ch": ch, "v": rng.randint(1, 2) if ch in ("assign", "accum") else 0})
    return {"z0": z0, "a": a, "script": script, "depth": depth, "dz": dz, "da": da}


def rand_program_wide(rng):
    """a dense destination of 10-18 elements and a sparse source (also beyond the destination's last coordinate): one populate step skips many stored elements"""
    nc = rng.randint(12, 18)
    dz = rng.choice([0, 0, 5])
    z0 = rand_tree(rng, nc, 1, pz=0.1, pabs=0.15, dflt=dz)
    if rng.random() < 0.5 and len(z0["e"]) > 3:
        z0["e"] = z0["e"][:rng.randint(len(z0["e"]) - 3, len(z0["e"]) - 1)]          # the source reaches beyond the destination
    a = rand_tree(rng, nc, 1, pz=0.1, pabs=0.8)
    script = []
    for pth, _ in present_paths(a, 1):
        ch = rng.choice(["leave", "assign", "assign", "accum", "zero"])
        script.append({"p": list(pth), "ch": ch, "v": rng.randint(1, 2) if ch in ("assign", "accum") else 0})
    return {"z0": z0, "a": a, "script": script, "depth": 1, "dz": dz, "da": 0}


def rand_program_u(rng, nc):
    """depth-1 program whose source rank is declared uncompressed: every coordinate of the shape is offered"""
    z0 = rand_tree(rng, nc, 1)
    a = rand_tree(rng, nc, 1, pz=0.2, pabs=0.4)
    script = []
    for c in range(nc):
        ch = rng.choice(["leave", "assign", "accum", "zero"])
        script.append({"p": [c], "ch": ch, "v": rng.randint(1, 2) if ch in ("assign", "accum") else 0})
    return {"z0": z0, "a": a, "script": script, "depth": 1, "dz": 0, "da": 0, "au": 1, "ash": nc}


def rand_program_touch(rng, nc, depth):
    """programs whose bodies also create paths below an offered sub-fiber without writing (for C01 / C02)"""
    pr = rand_program(rng, nc, depth)
    for s in pr["script"]:
        if len(s["p"]) < depth and rng.random() < 0.4:
            s["ch"] = rng.choice(["touch", "dense", "copyin", "clearit"])
            s["v"] = rng.randint(0, nc - 1)
    return pr


def side_check(ctx, prop, clause_from, clause_to, n=None):
    """populate programs judged for another property's clauses (C01: well-formed throughout, C02: rank mirror throughout)"""
    n = n or (250 if ctx.quick else 4000)
    progs = [rand_program(ctx.rng, 3, ctx.rng.choice([1, 2, 3])) for _ in range(n)]
    progs += [rand_program_touch(ctx.rng, 2, ctx.rng.choice([2, 3])) for _ in range(n)]
    behs, logs, verdicts, vstats, tviol = run_programs(ctx, prop, progs, embs=("tensor",) if prop == "C02" else ("fiber", "tensor"))
    viol = list(tviol)
    events = 0
    for lg in logs:
        v = verdicts[lg["tid"]]
        events += v["n"]
        for (_, cl) in v["fails"]:
            if cl == clause_from or cl == "P:C05:no-exception":
                touch = any(s["ch"] in ("touch", "dense", "copyin", "clearit") for s in lg["script"])
                viol.append({"clause": clause_to if cl == clause_from else clause_to + "-exception", "op": "populate" + (":touch" if touch else ""),
                             "where": classify(lg), "step": 1,
                             "detail": {"exc": lg["exc"]}, "pop": True,
                             "behaviour": {k: lg[k] for k in ("z0", "a", "script", "depth", "emb", "dz", "da")}})
    return viol, len(logs), events, vstats


def programs(ctx):
    design = []
    progs = []
    states = 0
    jobs = []
    rem = ctx.seed % 97
    # design level: ALL depth-2 programs, sharded over 16 JVMs by (Code(z0)*7+Code(a)*13) % 16 (TLC computes initial states sequentially)
    jobs = [("d1", 3, 1, True, 1, 0, 1), ("d1nz", 2, 1, True, 1, 0, 1, 3000, 1, 1)] + [(f"d2mc{k}", 2, 2, False, 16, k, 1) for k in range(16)]
    if ctx.quick:
        jobs.append(("d2", 2, 2, True, 97, rem, 1))
    else:
        jobs += [(f"d2e{k}", 2, 2, True, 48, (ctx.seed + 5 * k) % 48, 1) for k in range(6)]
    with cf.ThreadPoolExecutor(max_workers=16) as ex:
        rs = list(ex.map(lambda j: gen(*j), jobs))
    mc_states = 0
    mc_wall = 0.0
    for j, r in zip(jobs, rs):
        states += r["stats"]["distinct"]
        progs += [p for p in r["prints"] if isinstance(p, dict) and "script" in p]
        if j[0].startswith("d2mc"):
            mc_states += r["stats"]["distinct"]
            mc_wall = max(mc_wall, r["wall"])
            continue
        design.append({"module": "MC_Pop", "cfg": j[0], "ok": True, "states": r["stats"]["distinct"], "wall_s": round(r["wall"], 1),
                       "mode": "every script of the selected (z0, a) pairs", "invariants": ["DesignOK"], "programs_emitted": len(r["prints"])})
    design.append({"module": "MC_Pop", "cfg": "d2mc (16 shards)", "ok": True, "states": mc_states, "wall_s": round(mc_wall, 1),
                   "mode": "exhaustive: every (z0, a, script) over 2 coordinates at depth 2", "invariants": ["DesignOK"]})
    n3 = 300 if ctx.quick else 6000
    for _ in range(n3):
        progs.append(rand_program(ctx.rng, 2, 3))
    for _ in range(n3):
        progs.append(rand_program(ctx.rng, 4, ctx.rng.choice([1, 2])))
    for _ in range(n3):
        progs.append(rand_program_u(ctx.rng, 4))
    for _ in range(2 * n3):
        progs.append(rand_program_wide(ctx.rng))
    return progs, design, states


def run_programs(ctx, prop, progs, embs=("fiber", "tensor")):
    behs = []
    for p in progs:
        for emb in embs:
            if emb == "fiber" and p["depth"] > 1:
                continue
            b = dict(p)
            b["tid"] = len(behs) + 1
            b["emb"] = emb
            behs.append(b)
            if p["z0"]["e"] and ctx.rng.random() < 0.25 and not any(s_["ch"] in ("touch", "dense", "copyin", "clearit") for s_ in p["script"]):
                # the same program with the expression built before the destination received its content
                b = dict(p, prebuilt=1)
                b["tid"] = len(behs) + 1
                b["emb"] = emb
                behs.append(b)
    with cf.ProcessPoolExecutor(max_workers=16) as ex:
        logs = list(ex.map(_exec, behs, chunksize=64))
    from . import family
    behs, logs, tviol = family.split_timeouts(prop, behs, logs, lambda b: "populate")
    for v in tviol:
        v["pop"] = True
    verdicts, vstats = tlc.validate("PopTrace.tla", "PopTrace.cfg", logs, name=prop + "_pop")
    return behs, logs, verdicts, vstats, tviol


def _exec_session(c):
    from . import family
    return family.guarded(exec_pop.execute_session, c)


def run_sessions(ctx, prop, n):
    """populate SEQUENCES: three tensors take turns as destination and source (4-6 loops); every loop is judged as a program against the projected state just before it"""
    rng = ctx.rng
    cases = []
    for k in range(n):
        depth = rng.choice([2, 3, 3])
        steps = []
        for _ in range(rng.randint(4, 6)):
            d, s_ = rng.sample([0, 1, 2], 2)
            steps.append({"dst": d, "src": s_, "seed": rng.randint(0, 10 ** 6)})
        cases.append({"tid": k + 1, "depth": depth, "trees": [rand_tree(rng, 2, depth, pz=0.1, pabs=0.25) for _ in range(3)], "steps": steps})
    with cf.ProcessPoolExecutor(max_workers=16) as ex:
        outs = list(ex.map(_exec_session, cases, chunksize=16))
    from . import family
    cases, outs, tviol = family.split_timeouts(prop, cases, outs, lambda b: "populate-session")
    logs = []
    for c, o in zip(cases, outs):
        for r in o["records"]:
            r["tid"] = len(logs) + 1
            r["session"] = {k: c[k] for k in ("depth", "trees", "steps")}
            logs.append(r)
    verdicts, vstats = tlc.validate("PopTrace.tla", "PopTrace.cfg", [{k: v for k, v in lg.items() if k != "session"} for lg in logs], name=prop + "_popsess")
    return cases, logs, verdicts, vstats, tviol


def classify(lg):
    d = lg["depth"]
    return f"{lg['emb']}:depth{d}" + (":nonzero-default" if lg.get("dz") or lg.get("da") else "") + (":source-U" if lg.get("au") else "") + (":prebuilt" if lg.get("prebuilt") else "")


def run(ctx):
    progs, design, states = programs(ctx)
    # bodies that act on an offered sub-fiber as a whole (create a path below it, walk it densely, assign the source's sub-fiber, clear it): outside the
    # modelled write choices, judged for "z remains a well-formed member of its tensor throughout" only
    progs += [rand_program_touch(ctx.rng, 2, ctx.rng.choice([2, 3, 3])) for _ in range(400 if ctx.quick else 5000)]
    behs, logs, verdicts, vstats, tviol = run_programs(ctx, "C05", progs)
    violations, devs, clauses = list(tviol), {}, {}
    events = 0
    distinct = set()
    for lg in logs:
        v = verdicts[lg["tid"]]
        events += v["n"]
        if lg["offers"]:
            distinct.add(json.dumps([lg["z0"], lg["a"], lg["script"]], sort_keys=True))
        for (_, cl) in v["fails"]:
            clauses[cl] = clauses.get(cl, 0) + 1
            rec = {"clause": cl, "op": "populate", "where": classify(lg), "step": 1, "detail": {"exc": lg["exc"], "script": lg["script"]},
                   "behaviour": {k: lg[k] for k in ("z0", "a", "script", "depth", "emb", "dz", "da", "au", "ash", "prebuilt")}}
            if cl.startswith("P:C05:"):
                violations.append(rec)
            else:
                k = (cl, classify(lg))
                devs.setdefault(k, [0, rec["behaviour"]])
                devs[k][0] += 1
    scases, slogs, sverd, svst, stv = run_sessions(ctx, "C05", 250 if ctx.quick else 4000)
    violations += stv
    for lg in slogs:
        v = sverd[lg["tid"]]
        events += v["n"]
        for (_, cl) in v["fails"]:
            clauses[cl] = clauses.get(cl, 0) + 1
            if cl.startswith("P:C05:"):
                violations.append({"clause": cl, "op": "populate-session", "where": f"tensor:depth{lg['depth']}:step{lg['session_step']}", "step": lg["session_step"],
                                   "detail": {"exc": lg["exc"], "script": lg["script"]}, "behaviour": {"session": lg["session"]}})
    vstats = {"distinct": vstats["distinct"] + svst["distinct"], "generated": vstats["generated"] + svst["generated"]}
    logs = logs + slogs
    return {"states": states + vstats["distinct"], "transitions": states + vstats["generated"], "traces": len(logs), "evaluations": events,
            "distinct_nontrivial": len(distinct),
            "rule": "a case is one populate program (z0, a, script) executed on the implementation; events = body executions + final state; "
                    "non-trivial = the source offered at least one coordinate; depth 1-2 programs are emitted by TLC from MC_Pop (all scripts of the "
                    "selected pairs), depth 3 and 4-coordinate programs by the seeded random generator",
            "samples": [{k: b[k] for k in ("z0", "a", "script", "emb")} for b in behs[:: max(1, len(behs) // 4)]][:5],
            "violations": violations,
            "deviations": [{"clause": k[0], "where": k[1], "count": v[0], "example": v[1]} for k, v in sorted(devs.items())],
            "design": design, "exhaustive": False, "clauses": clauses,
            "assumptions": ["loop bodies act only through the offered references (leave / assign / accumulate / reset / nested populate)",
                            "a pre-existing explicit default at an offered coordinate that the body leaves at the default may or may not survive (content is equal)"],
            "scope": {"tlc": "depth 1: 3 coordinates, all 5832 programs; depth 2: 2 coordinates, all scripts of the sampled (z0,a) pairs; "
                             "design-level: all 476100 depth-2 programs", "random": "depth 3 over 2 coordinates, depth 1-2 over 4 coordinates"}}


def replay(ctx, rec):
    if "session" in rec.get("behaviour", {}):
        from . import family
        c = dict(rec["behaviour"]["session"])
        c["tid"] = 1
        o = family.guarded(exec_pop.execute_session, c)
        if o.get("timeout") or o.get("crash"):
            print("VIOLATION property=C05 replay=(replayed: " + str(o.get("crash", "the call does not terminate")) + ")")
            return 1
        for n, r in enumerate(o["records"]):
            r["tid"] = n + 1
        verdicts, _ = tlc.validate("PopTrace.tla", "PopTrace.cfg", o["records"], name="C05_replay", shards=1)
        bad = [f for v in verdicts.values() for f in v["fails"] if f[1].startswith("P:C05")]
        print(json.dumps(bad))
        if bad:
            print("VIOLATION property=C05 replay=(replayed)")
        return 1 if bad else 0
    b = dict(rec["behaviour"])
    b["tid"] = 1
    from . import family
    lg = family.guarded(exec_pop.execute, b)
    if lg.get("crash"):
        print(("VIOLATION property=%s replay=(replayed: " % ("C05")) + lg["crash"] + ")")
        return 1
    if lg.get("timeout"):
        print("VIOLATION property=C05 replay=(replayed: the call does not terminate)")
        return 1
    verdicts, _ = tlc.validate("PopTrace.tla", "PopTrace.cfg", [lg], name="C05_replay", shards=1)
    print(json.dumps(verdicts[1]["fails"]))
    bad = [f for f in verdicts[1]["fails"] if f[1].startswith("P:C05")]
    if bad:
        print("VIOLATION property=C05 replay=(replayed)")
    return 1 if bad else 0
