"""C18 - format footprints add up from the tree exactly"""
import itertools
from . import tlc, family
from .c05 import rand_tree
from .c09 import small_trees


def points(tree, depth, nc):
    """every stored point (partial and full) plus a few absent ones"""
    pts = [[]]

    def rec(p, path):
        for c, q in p["e"]:
            pts.append(path + [c])
            if q["k"] == "F":
                rec(q, path + [c])
    rec(tree, [])
    return pts


def mkcase(rng, tree, depth, nc, fmts=("C", "U", "")):
    spec = []
    for _ in range(depth):
        s = {"fmt": rng.choice(fmts), "layout": rng.choice(["", "contiguous", "interleaved"])}
        for k in ("rh", "fh", "c", "p"):
            s[k] = rng.choice([-1, 0, 1, 3])
        spec.append(s)
    rootspec = {"h": rng.choice([-1, 0, 2]), "p": rng.choice([-1, 0, 1])}
    qs = [{"q": "root"}, {"q": "tensor"}]
    for r in range(1, depth + 1):
        qs.append({"q": "rank", "r": r})
        qs.append({"q": "elem", "r": r})
        for f in ("fmt", "layout", "c", "p", "fh", "rh"):
            if spec[r - 1][f] in (-1, ""):
                qs.append({"q": "field", "r": r, "f": f, "exp_default": {"fmt": "C", "layout": "contiguous"}.get(f, 0)})
    for pt in points(tree, depth, nc):
        if len(pt) < depth:
            qs.append({"q": "fiber", "pt": pt})
        qs.append({"q": "subtree", "pt": pt})
    absent = [nc + 1] if depth > 1 else []
    if absent:
        qs.append({"q": "fiber", "pt": absent})
        qs.append({"q": "subtree", "pt": absent})
    return {"tree": tree, "depth": depth, "shapes": [nc + 2] * depth, "spec": spec, "rootspec": rootspec, "queries": qs,
            "with_root": rng.choice([0, 1]), "keep_empty_rank": rng.choice([0, 1]),
            "tfmts": [rng.choice(["C", "U"]) for _ in range(depth)] if rng.random() < 0.3 else [],
            "grow": [rng.randint(0, nc + 1) for _ in range(depth)] if rng.random() < 0.4 else [],
            "ownshape": 1 if rng.random() < 0.3 else 0}


def run(ctx):
    rng = ctx.rng
    cfg = tlc.write_cfg("MC_Format_run.cfg", "CONSTANTS\n NC = 2\nINIT Init\nNEXT Next\nINVARIANT DesignOK\nCHECK_DEADLOCK FALSE\n")
    r = tlc.model_check("MC_Format.tla", cfg, workers=4)
    design = [family.design_entry("MC_Format", "laws", r, "exhaustive: rank-list traversal = sub-tree traversal on canonical all-compressed tensors for every width "
                                  "assignment from {0,1,3}; monotone in a width", ["DesignOK"])]
    cases = []
    reps = 6 if ctx.quick else 20
    for depth in (1, 2):
        for t in small_trees(depth):
            for _ in range(reps):
                cases.append(mkcase(rng, t, depth, 2))
    for t in rng.sample(small_trees(3), 150 if ctx.quick else 3000):
        cases.append(mkcase(rng, t, 3, 2))
    for _ in range(100 if ctx.quick else 2000):
        depth = rng.choice([1, 2, 3])
        cases.append(mkcase(rng, rand_tree(rng, 4, depth), depth, 4))
    for _ in range(200 if ctx.quick else 3000):
        cases.append(mkcase(rng, rand_tree(rng, 2, 4, pabs=0.3), 4, 2, fmts=("U", "U", "U", "C", "")))          # depth 4: empty sub-trees three ranks deep under uncompressed ranks
    for c in list(cases):
        if rng.random() < 0.3:
            cases.append(dict(c, narrow=1))
    part = family.run_family(ctx, "C18", cases, "harness.exec_format", "FormatTrace.tla", "FormatTrace.cfg",
                             op_of=lambda c, lg, st: "format", where_of=lambda c, lg, st: f"depth{c['depth']}:" + "".join(s["fmt"] or "c" for s in c["spec"]) + (":narrow" if c.get("narrow") else ""),
                             nontrivial=lambda c, lg: bool(c["tree"]["e"]))
    part["evaluations"] = sum(len(c["queries"]) for c in cases)
    res = {"design": design, "states": r["stats"]["distinct"], "transitions": r["stats"]["generated"], "exhaustive": False,
           "rule": "a case is a (tensor, format specification) pair with every footprint query (fiber / sub-tree at every stored and an absent point, every rank, "
                   "root, tensor, element, omitted-field getters); evaluations = queries answered; tensors: all one- and two-level trees over 2 coordinates with "
                   "explicit defaults and empty sub-fibers, sampled three-level ones, random 4-coordinate trees; specs: widths from {omitted,0,1,3}, formats C/U/omitted",
           "assumptions": ["declared shapes (the uncompressed footprint is defined by the shape)"], "scope": {"cases": len(cases)}}
    return family.merge(res, part)


def replay(ctx, rec):
    return family.replay_family(ctx, "C18", rec, "harness.exec_format", "FormatTrace.tla", "FormatTrace.cfg")
