"""C13 - conversions between representations are lossless"""
import itertools
from . import tlc, family
from .c05 import rand_tree


def nests(rng, quick):
    out = []
    vals = [0, 1, 2]
    for k in (1, 2, 3):
        for vs in itertools.product(vals, repeat=k):
            out.append((1, list(vs)))
    for a, b in ((1, 2), (2, 2), (2, 3)):
        for vs in itertools.product(vals, repeat=a * b):
            out.append((2, [list(vs[i * b:(i + 1) * b]) for i in range(a)]))
    d3 = [(3, [[list(vs[0:2]), list(vs[2:4])], [list(vs[4:6]), list(vs[6:8])]]) for vs in itertools.product(vals, repeat=8)]
    out += rng.sample(d3, 500) if quick else d3
    for _ in range(100 if quick else 3000):      # depth 4, random
        out.append((4, [[[[rng.choice([0, 0, 1, 2, 3]) for _ in range(2)] for _ in range(3)] for _ in range(2)] for _ in range(2)]))
    return out


def walk_leaves(t):
    for _, p in t["e"]:
        if p["k"] == "L":
            yield p
        else:
            yield from walk_leaves(p)


def all_default(n, d):
    return all(all_default(x, d) for x in n) if isinstance(n, list) else n == d


def run(ctx):
    rng = ctx.rng
    design = []
    states = 0
    for d in (0, 1):
        cfg = tlc.write_cfg(f"MC_Convert_{d}.cfg", f"CONSTANTS\n D = {d}\nINIT Init\nNEXT Next\nINVARIANT DesignOK\nCHECK_DEADLOCK FALSE\n")
        r = tlc.model_check("MC_Convert.tla", cfg, name=f"conv{d}", workers=4)
        design.append(family.design_entry("MC_Convert", f"default {d}", r, "exhaustive: squeezed tree of every nest (depth 1-3, extents <= 3, values 0..2) has the nest's "
                                          "content, is canonical, and uncompresses back to the nest", ["DesignOK"]))
        states += r["stats"]["distinct"]
    cases = []
    for depth, n in nests(rng, ctx.quick):
        for d in ((0, 1) if ctx.quick else (0, 1, -1)):
            for via in ("fiber", "tensor"):
                cases.append({"kind": "nest", "nest": n, "depth": depth, "d": d, "via": via, "unc_shape": rng.choice([0, 1, 1])})
                if d >= 0 and rng.random() < 0.25:
                    # the same nest over another scalar class (floats with a float zero, integers beyond 2**31, nearly equal floats, negatives)
                    cases.append({"kind": "nest", "nest": n, "depth": depth, "d": d, "via": via, "unc_shape": 1, "vmap": rng.choice(["floatzero", "big", "nearfloats", "negative"])})
    for _ in range(400 if ctx.quick else 6000):
        depth = rng.choice([1, 2, 3])
        t = rand_tree(rng, 4, depth)
        cases.append({"kind": "roundtrip", "obj": "fiber", "via": "dict", "tree": t, "depth": depth})
        cases.append({"kind": "roundtrip", "obj": "fiber", "via": "yaml", "tree": t, "depth": depth})
        cases.append({"kind": "roundtrip", "obj": "tensor", "via": "yaml", "tree": t, "depth": depth, "loader": rng.choice(["fromYAMLfile", "fromYAMLfile", "ctor"])})
        if rng.random() < 0.4:
            # a tensor built shapeless that is given its shape afterwards (larger than what its content suggests)
            cases.append({"kind": "roundtrip", "obj": "tensor", "via": "yaml", "tree": t, "depth": depth, "loader": "fromYAMLfile", "lateshape": [rng.randint(5, 8) for _ in range(depth)]})
        d = rng.choice([5, 7])
        tn = rand_tree(rng, 4, depth, dflt=d, pz=0.3)
        for x in walk_leaves(tn):
            if rng.random() < 0.3:
                x["v"] = 0                     # a genuine 0 entry in a fiber whose default is not 0
        cases.append({"kind": "roundtrip", "obj": "fiber", "via": rng.choice(["dict", "yaml"]), "tree": tn, "depth": depth, "d": d})
        if depth >= 2 and rng.random() < 0.5:
            cases.append({"kind": "roundtrip", "obj": rng.choice(["tensor", "fiber"]), "via": "yaml", "tree": t, "depth": depth, "flatten": depth - 1})
        if depth >= 2 and rng.random() < 0.5:
            # a tensor flattened with linear coordinates: integer coordinates, but a NESTED rank id ([['K','M'],'N']) and a product shape
            cases.append({"kind": "roundtrip", "obj": "tensor", "via": "yaml", "tree": t, "depth": depth, "flatten": rng.randint(1, depth - 1), "fstyle": "linear",
                          "loader": rng.choice(["fromYAMLfile", "ctor"])})
        if depth >= 2:
            # tuple coordinates (flat and nested pair style) through the dictionary form
            cases.append({"kind": "roundtrip", "obj": "fiber", "via": "dict", "tree": t, "depth": depth, "flatten": depth - 1, "fstyle": rng.choice(["tuple", "pair"])})
    for v in (0, 1, 7, -3):
        cases.append({"kind": "roundtrip", "obj": "rank0", "via": "yaml", "val": v, "depth": 0})
    for _ in range(150 if ctx.quick else 3000):
        k = rng.choice([1, 2, 3])
        shape = [rng.randint(1, 5) for _ in range(k)]
        dens = [rng.choice([1.0, 1.0, 0.5, 0.3]) for _ in range(k)]
        cases.append({"kind": "random", "via": rng.choice(["fiber", "tensor"]), "shape": shape, "density": dens, "seed": rng.randint(0, 10 ** 6), "interval": rng.choice([1, 5, 10])})
    part = family.run_family(ctx, "C13", cases, "harness.exec_convert", "ConvertTrace.tla", "ConvertTrace.cfg",
                             op_of=lambda c, lg, st: c["kind"] + ":" + c.get("via", "") + (":" + c["obj"] if "obj" in c else ""),
                             where_of=lambda c, lg, st: ("tuplecoords" if c.get("flatten") else f"depth{c.get('depth', len(c.get('shape', [])))}")
                             + (":alldefault" if c["kind"] == "nest" and all_default(c["nest"], c["d"]) else ""))
    res = {"design": design, "states": states, "transitions": states, "exhaustive": False,
           "rule": "a case is one conversion: nest -> fiber/tensor -> nest for every rectangular nest of depth 1-3 (extents <= 3, values 0..2) with defaults 0/1(/-1) "
                   "and random depth-4 nests; dict / YAML round trips of random depth 1-3 trees (fibers, tensors, flattened tuple-coordinate tensors, rank-0); "
                   "fromRandom with seeds / shapes / densities; every case is distinct by construction",
           "assumptions": ["integer entries (exactly representable floats behave identically; not generated)", "YAML text layout and the distribution of fromRandom are not constrained"],
           "scope": {"cases": len(cases)}}
    return family.merge(res, part)


def replay(ctx, rec):
    return family.replay_family(ctx, "C13", rec, "harness.exec_convert", "ConvertTrace.tla", "ConvertTrace.cfg")
