"""Executor for buffer-traffic cases (C17): writes synthetic (or recorded) traces as CSV, builds a small Format, calls the real
Traffic.buffetTraffic / cacheTraffic / filterTrace / _combineTraces and logs what they return and the directory listing."""
import contextlib
import io
import os
import shutil
import sys
import tempfile

sys.path.insert(0, __import__("os").environ.get("VERIF_REPO", "/repo"))
from fibertree import Tensor  # noqa: E402
from fibertree.model.format import Format  # noqa: E402
from fibertree.model.traffic import Traffic  # noqa: E402

ROOT = os.path.dirname(os.path.dirname(os.path.abspath(__file__)))


def write_trace(path, order, rows):
    with open(path, "w") as f:
        f.write(",".join([r + "_pos" for r in order] + order + ["fiber_pos"]) + "\n")
        for r in rows:
            f.write(",".join(str(x) for x in (r["stamp"] + r["coords"] + [r["pos"]])) + "\n")


def read_csv(path):
    out = []
    with open(path) as f:
        lines = f.read().splitlines()
    return lines[0].split(",") if lines else [], [ln.split(",") for ln in lines[1:]]


def execute(case):
    out = {k: v for k, v in case.items()}
    out["exc"] = "ok"
    base = os.path.join(ROOT, ".work", "yaml")
    os.makedirs(base, exist_ok=True)
    d = tempfile.mkdtemp(prefix="b", dir=base)
    try:
        order = case["order"]
        rfn = os.path.join(d, "read.csv")
        wfn = os.path.join(d, "write.csv")
        write_trace(rfn, order, case.get("rows_r", []))
        has_w = bool(case.get("rows_w"))
        if has_w:
            write_trace(wfn, order, case["rows_w"])
        if case["kind"] in ("buffet", "cache"):
            tr = case["tranks"]
            t = Tensor(rank_ids=tr, shape=[case["shape"]] * len(tr), name="A")
            fm = Format(t, {r: {"pbits": 32, "cbits": 32} for r in tr})
            # a line holds epl elements of 32 bits, and possibly some slack bits (a line size that is no multiple of the element footprint)
            line_sz = case["epl"] * 32 + case.get("slack", 0)
            brank = order[-1]
            fns = {("A", brank, "payload", "read"): rfn}
            if has_w:
                fns[("A", brank, "payload", "write")] = wfn
            binding = {"tensor": "A", "rank": brank, "type": "payload"}
            if case["kind"] == "buffet":
                binding["evict-on"] = case["ev"]
            before = sorted(os.listdir(d))
            res = []
            for cap in [c_ * line_sz // (case["epl"] * 32) for c_ in case["caps"]]:          # capacities keep their size in lines
                try:
                    with contextlib.redirect_stdout(io.StringIO()):
                        if case["kind"] == "buffet":
                            bits, ov = Traffic.buffetTraffic([dict(binding)], {"A": fm}, dict(fns), cap, line_sz)
                        else:
                            bits, ov = Traffic.cacheTraffic([dict(binding)], {"A": fm}, dict(fns), cap, line_sz)
                    a = bits.get("A", {})
                    res.append({"cap": cap, "read": int(a.get("read", 0)), "write": int(a.get("write", 0)), "overflows": int(ov), "exc": "ok"})
                except BaseException as ex:  # noqa: B036
                    res.append({"cap": cap, "read": -1, "write": -1, "overflows": -1, "exc": "err:" + type(ex).__name__})
            out["res"] = res
            out["line_sz"] = line_sz
            out["files_same"] = 1 if sorted(os.listdir(d)) == before else 0
        elif case["kind"] == "buffet2":
            # tensor A[M, K]: its M payloads (32 bit) and its K payloads (64 bit) are both bound, each with its own trace; line of 128 bits
            t = Tensor(rank_ids=["M", "K"], shape=[case["shape"]] * 2, name="A")
            fm = Format(t, {"M": {"format": "U", "pbits": 32}, "K": {"format": "C", "cbits": 32, "pbits": 64}})
            line_sz = 128
            mfn, kfn = os.path.join(d, "m.csv"), os.path.join(d, "k.csv")
            write_trace(mfn, ["M"], case["parts"][0]["rows"])
            write_trace(kfn, ["M", "K"], case["parts"][1]["rows"])
            fns = {("A", "M", "payload", "read"): mfn, ("A", "K", "payload", "read"): kfn}
            bm = {"tensor": "A", "rank": "M", "type": "payload", "evict-on": "root"}
            bk = {"tensor": "A", "rank": "K", "type": "payload", "evict-on": case["evk"]}
            before = sorted(os.listdir(d))
            res = []
            for blist in ([bk, bm], [bm, bk]):
                try:
                    with contextlib.redirect_stdout(io.StringIO()):
                        bits, ov = Traffic.buffetTraffic([dict(b) for b in blist], {"A": fm}, dict(fns), 64 * line_sz, line_sz)
                    res.append({"cap": 64 * line_sz, "read": int(bits.get("A", {}).get("read", 0)), "write": 0, "overflows": int(ov), "exc": "ok"})
                except BaseException as ex:  # noqa: B036
                    res.append({"cap": 0, "read": -1, "write": -1, "overflows": -1, "exc": "err:" + type(ex).__name__})
            out["res"] = res
            out["line_sz"] = line_sz
            out["files_same"] = 1 if sorted(os.listdir(d)) == before else 0
        elif case["kind"] == "filter":
            ffn = os.path.join(d, "filter.csv")
            write_trace(ffn, case["forder"], case["rows_f"])
            ofn = os.path.join(d, "out.csv")
            before = sorted(os.listdir(d))
            Traffic.filterTrace(rfn, ffn, ofn)
            head, rows = read_csv(ofn)
            L = len(order)
            out["out_rows"] = [{"stamp": [int(x) for x in r[:L]], "coords": [int(x) for x in r[L:2 * L]], "pos": int(r[2 * L]), "w": 0} for r in rows]
            out["out_header_ok"] = 1 if head == [r + "_pos" for r in order] + order + ["fiber_pos"] else 0
            out["files_same"] = 1 if sorted(os.listdir(d)) == sorted(before + ["out.csv"]) else 0
        elif case["kind"] == "combine":
            cfn = os.path.join(d, "comb.csv")
            Traffic._combineTraces(read_fn=rfn, write_fn=wfn if has_w else None, comb_fn=cfn)
            head, rows = read_csv(cfn)
            L = len(order)
            out["comb"] = [{"stamp": [int(x) for x in r[:L]], "coords": [int(x) for x in r[L:2 * L]], "pos": int(r[2 * L]), "w": 1 if r[2 * L + 1] == "True" else 0} for r in rows]
            out["comb_header_ok"] = 1 if head == [r + "_pos" for r in order] + order + ["fiber_pos", "is_write"] else 0
    except BaseException as ex:  # noqa: B036
        out["exc"] = "err:" + type(ex).__name__ + ":" + str(ex)[:80]
    finally:
        shutil.rmtree(d, ignore_errors=True)
    return out
