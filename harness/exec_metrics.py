"""Executor for metrics sessions (C15, C16): runs a sequence of kernel sessions in ONE process (Metrics is process-global state),
with collection off / on, any subset of traces registered, sessions that are aborted by an exception in the loop body, and logs
the outputs, the reported counters, the trace files and the projected Metrics state after beginCollect / endCollect."""
import csv
import os
import sys

sys.path.insert(0, __import__("os").environ.get("VERIF_REPO", "/repo"))
from fibertree import Payload, Tensor  # noqa: E402
from fibertree.core.metrics import Metrics  # noqa: E402
from fibertree.model.compute import Compute  # noqa: E402
from . import proj, kernel  # noqa: E402

ROOT = os.path.dirname(os.path.dirname(os.path.abspath(__file__)))


class Abort(Exception):
    pass


def kv(d):
    if d is None:
        return [["<None>", ""]]
    return sorted([[str(k), str(v)] for k, v in d.items()])


def metrics_state():
    """every register as canonical JSON text (so that any shape of value can be compared)"""
    import json
    m = Metrics
    raw = {"collecting": bool(m.collecting), "iteration": m.iteration, "point": m.point,
           "line_order": kv(m.line_order) if m.line_order is not None else None,
           "loop_order": m.loop_order, "fiber_label": kv(m.fiber_label), "traces": sorted(str(k) for k in m.traces.keys()),
           "metrics": kv(m.metrics) if m.metrics is not None else None,
           "rank_matches": kv(m.rank_matches), "all_rank_matches": kv(m.all_rank_matches), "rank_flatten": sorted(str(k) for k in m.rank_flatten.keys()),
           "prefix": None if m.prefix is None else "set"}
    return {k: json.dumps(v, separators=(",", ":"), default=str) for k, v in raw.items()}


def read_rows(path):
    if not os.path.exists(path):
        return {"exists": 0, "header": [], "rows": []}
    with open(path) as f:
        lines = list(csv.reader(f))
    if not lines:
        return {"exists": 1, "header": [], "rows": []}
    rows = []
    for r in lines[1:]:
        try:
            rows.append([int(x) for x in r])
        except ValueError:
            rows.append([-999])
    return {"exists": 1, "header": lines[0], "rows": rows}


def run_session(sess, wdir, idx):
    kc = sess["kernel"]
    out = {"consumed": [], "files": [], "kid": sess["kid"], "collect": sess["collect"], "abort": sess.get("abort", 0), "traces": sess.get("traces", []), "exc": "ok",
           "ncache": sess.get("ncache", 0), "order": kc["order"], "style": kc.get("style", "tf"), "nc": max(kc["extents"].values()),
           "expr0": kc["expr"], "ops0": kc["ops"], "zshape": kc.get("zshape", 1), "tiled": 1 if kc.get("tile") else 0, "plus": 1 if kc["expr"].get("plus") else 2 if kc["expr"].get("prod") else 0,
           "ufmt": kc.get("ufmt", []), "nofilter": 1 if kc.get("nofilter") else 0, "extents": kc["extents"]}
    prefix = os.path.join(wdir, f"s{idx}")
    proj.VALUE_MAP = proj.VALUE_MAPS.get(kc.get("vmap", ""))
    try:
        return _run_session(sess, kc, out, prefix)
    finally:
        proj.VALUE_MAP = None


def _run_session(sess, kc, out, prefix):
    used, expr1, z = kernel.prepare(kc)
    out["expr1"] = expr1
    out["ops1"] = {t: proj.strip(proj.proj_tensor(u)["root"]) for t, u in used.items()}
    files = {}
    try:
        if sess.get("dirty"):
            # an earlier session of another kind (a projection loop: it also fills the rank-matching registers), finished (1) or abandoned without endCollect (2)
            from fibertree import Fiber
            Metrics.beginCollect(prefix + "d")
            f = Fiber([1, 2, 4], [1, 2, 3])
            f.getRankAttrs().setId("W")
            for _ in f.project(trans_fn=lambda c: c + 1, rank_id="Q"):
                pass
            if sess["dirty"] == 1:
                Metrics.endCollect()
        if kc.get("prefill") and kc["expr"].get("plus"):
            # the output is filled from B alone by another populate loop before the judged session; with `prebuilt` the judged session iterates a populate
            # expression that was built BEFORE that (while the output was still empty)
            zr_, a_m_, b_m_ = z.getRoot(), used["A"].getRoot(), used["B"].getRoot()
            if kc.get("prebuilt"):
                kc = dict(kc, _expr=zr_ << (a_m_ | b_m_))
            for _m, (z_ref_, b_val_) in zr_ << b_m_:
                z_ref_ <<= b_val_
        if kc.get("warm") and kc["expr"].get("plus"):
            # the output already holds the result (the same assigning kernel ran on it before, collection off): the judged session then assigns values the
            # references already hold - executed and counted all the same
            kernel.run_nest(kc, used, expr1, z)
        if sess["collect"]:
            Metrics.beginCollect(prefix)
            out["state_begin"] = metrics_state()
            if sess.get("ncache"):
                Metrics.setNumCachedUses(sess["ncache"])
            for rank, typ in sess.get("traces", []):
                Metrics.trace(rank, type_=typ)
                if sess.get("consume"):
                    Metrics.trace(rank, type_=typ, consumable=True)
                files[(rank, typ)] = f"{prefix}-{rank}-{typ}.csv"
        if sess.get("abort"):
            # run part of the kernel and die inside the loop body: no endCollect()
            try:
                bodies = kernel.run_nest(dict(kc, abort_after=sess["abort"]), used, expr1, z)
            except Abort:
                pass
            out["z"] = {"rank0": 1, "val": 0}
            out["aborted"] = 1
            return out
        out["bodies"] = kernel.run_nest(kc, used, expr1, z)
        out["z"] = kernel.z_projection(z)
        if sess["collect"]:
            dump = Metrics.dump()
            comp = dict(dump.get("Compute", {})) if isinstance(dump, dict) else {}
            out["mul"], out["add"], out["upd"] = int(comp.get("payload_mul", 0)), int(comp.get("payload_add", 0)), int(comp.get("payload_update", 0))
            out["numops"] = [Compute.numOps(dump, "mul") if "Compute" in dump else 0, Compute.numOps(dump, "add") if "Compute" in dump else 0]
            consumed = {}
            if sess.get("consume"):
                for (rank, typ) in files:
                    got = Metrics.consumeTrace(rank, typ)
                    consumed[(rank, typ)] = [[int(x) for x in r] for r in got[1:]] if got else []
            Metrics.endCollect()
            out["state_end"] = metrics_state()
            out["files"] = []
            for (rank, typ), path in files.items():
                r = read_rows(path)
                lv = [k for k, v in enumerate(kc["order"]) if kernel.rid(v) == rank]
                r.update({"rank": rank, "type": typ, "numiters": Compute.numIters(path) if r["exists"] else -1, "level": (lv[0] + 1) if lv else 0})
                out["files"].append(r)
                if (rank, typ) in consumed:
                    out["consumed"].append({"rank": rank, "type": typ, "rows": consumed[(rank, typ)], "filerows": r["rows"]})
    except BaseException as ex:  # noqa: B036
        out["exc"] = "err:" + type(ex).__name__ + ":" + str(ex)[:100]
        out.setdefault("z", {"rank0": 1, "val": 0})
        # leave Metrics as the failed session left it: the next beginCollect must cope
    return out


def execute(case):
    import shutil
    import tempfile
    wdir = tempfile.mkdtemp(prefix="m", dir=os.path.join(ROOT, ".work", "yaml") if os.path.isdir(os.path.join(ROOT, ".work", "yaml")) else None)
    out = {"tid": case["tid"], "sessions": []}
    try:
        for i, s in enumerate(case["sessions"]):
            out["sessions"].append(run_session(s, wdir, i))
    finally:
        if Metrics.isCollecting():
            try:
                Metrics.endCollect()
            except BaseException:  # noqa: B036
                Metrics.collecting = False
        shutil.rmtree(wdir, ignore_errors=True)
    return out
