------------------------------- MODULE FTStore -------------------------------
(***************************************************************************)
(* The mutable fibertree as a state machine: one action per public         *)
(* mutating / reading call (the linearization point of a sequential API    *)
(* is the return of the call).                                             *)
(*                                                                         *)
(* State:  tree  - the root fiber (abstract: k/e/v fields only)            *)
(*         depth - number of ranks (leaves sit at depth `depth`)           *)
(* An action is a record [op |-> ..., ...]; Apply gives the successor tree *)
(* and the outcome class ("ok", "order" = rejected for coordinate order).  *)
(* The operational definitions follow the code (fiber.py / iterators.py);  *)
(* the declarative statements they are checked against are in MC_Store.    *)
(***************************************************************************)
EXTENDS FTCore

Outcome(t, x) == [tree |-> t, exc |-> x]

FiberAt(tree, path) == AtPath(tree, path)
IsFiberPath(tree, path) == FiberAt(tree, path).k = "F"
\* fiber at `path` holds leaves
LeafLevel(path, depth) == Len(path) = depth - 1
MaxCoord(e) == IF e = <<>> THEN -1 ELSE e[Len(e)][1]

\* abstract view of a projected payload: drop implementation-only fields
RECURSIVE Abs(_)
Abs(p) == IF p.k = "F" THEN Fib([i \in 1..Len(p.e) |-> <<p.e[i][1], Abs(p.e[i][2])>>])
          ELSE IF p.k = "L" THEN Leaf(p.v)
          ELSE [k |-> "X"]

\* getPayloadRef(*pt): create the missing path; lvl = levels remaining below p (1: p holds leaves)
RECURSIVE Ensure(_, _, _)
Ensure(p, pt, lvl) ==
    IF pt = <<>> THEN p
    ELSE LET c   == Head(pt)
             sub == IF Has(p.e, c) THEN Get(p.e, c) ELSE (IF lvl = 1 THEN Leaf(0) ELSE Fib(<<>>))
         IN [p EXCEPT !.e = Put(p.e, c, IF lvl = 1 THEN sub ELSE Ensure(sub, Tail(pt), lvl - 1))]

\* iteration of a compressed fiber presents the non-empty elements; fiber assignment copies exactly those, recursively
RECURSIVE Pruned(_)
Pruned(p) == IF p.k # "F" THEN p
             ELSE LET pe == Present(p.e, 0)
                  IN Fib([i \in 1..Len(pe) |-> <<pe[i][1], Pruned(pe[i][2])>>])

RangeSeq(lo, hi, step) == IF hi <= lo THEN <<>> ELSE [i \in 1..((hi - lo + step - 1) \div step) |-> lo + (i - 1) * step]

RECURSIVE EnsureAll(_, _, _)
EnsureAll(f, cs, lvl) == IF cs = <<>> THEN f ELSE EnsureAll(Ensure(f, <<Head(cs)>>, lvl), Tail(cs), lvl)

\* coordinate update callbacks (position, coordinate) -> coordinate
CoordFn(fn, i, c, n) == CASE fn = "shift"   -> c + 2
                          [] fn = "reverse" -> 10 - c
                          [] fn = "double"  -> 2 * c
                          [] fn = "mirror"  -> 0 - c            \* negative coordinates (mirroring / re-centring a rank)
                          [] fn = "recentre" -> c - 1
                          [] OTHER          -> c
\* payload update callbacks value -> value  (all return boxed legal payloads)
ValFn(fn, v) == CASE fn = "inc" -> v + 1 [] fn = "zero" -> 0 [] fn = "dbl" -> 2 * v [] OTHER -> v

SortByCoord(e) == LET S == {e[i][1] : i \in 1..Len(e)}
                      s == SetToSortedSeq(S)
                  IN [i \in 1..Len(s) |-> <<s[i], Get(e, s[i])>>]

(***************************************************************************)
(* Apply: the successor of `tree` under action a.                          *)
(***************************************************************************)
ApplyFiber(f, a, lvl) ==      \* f: the addressed fiber, lvl: levels below it (1 = leaf level)
  CASE a.op = "append" ->
         IF MaxCoord(f.e) < a.c THEN Outcome(Fib(Append(f.e, <<a.c, Leaf(a.v)>>)), "ok")
         ELSE Outcome(f, "order")
    [] a.op = "extend" ->
         IF IsEmptyP(Fib(a.other), 0) THEN Outcome(f, "ok")                      \* extending with an empty fiber is a nop
         ELSE IF MaxCoord(f.e) < a.other[1][1] THEN Outcome(Fib(f.e \o a.other), "ok")
         ELSE Outcome(f, "order")
    [] a.op = "setitem" ->
         LET i  == a.pos + 1
             okc == a.c = -1 \/ ( (i = 1 \/ f.e[i - 1][1] < a.c) /\ (i = Len(f.e) \/ a.c < f.e[i + 1][1]) )
             nc == IF a.c = -1 THEN f.e[i][1] ELSE a.c
             np == IF a.v = -1 THEN f.e[i][2] ELSE Leaf(a.v)
         IN IF okc THEN Outcome(Fib([f.e EXCEPT ![i] = <<nc, np>>]), "ok") ELSE Outcome(f, "order")
    [] a.op = "clear" -> Outcome(Fib(<<>>), "ok")
    [] a.op = "fassign" -> Outcome(Pruned(Fib(a.other)), "ok")
    [] a.op = "itershaperef" -> Outcome(EnsureAll(f, RangeSeq(a.lo, a.hi, a.step), lvl), "ok")
    [] a.op = "fimul" ->      \* f *= s : scales the elements iteration presents
         Outcome(Fib([i \in 1..Len(f.e) |-> IF IsEmptyP(f.e[i][2], 0) THEN f.e[i] ELSE <<f.e[i][1], Leaf(f.e[i][2].v * a.v)>>]), "ok")
    [] a.op = "fiadd" ->      \* f += s on an unowned fiber without declared shape: every coordinate of 0..max
         Outcome(LET g == EnsureAll(f, RangeSeq(0, MaxCoord(f.e) + 1, 1), 1)
                 IN Fib([i \in 1..Len(g.e) |-> <<g.e[i][1], Leaf(g.e[i][2].v + a.v)>>]), "ok")
    [] a.op = "updcoords" ->
         LET n  == Len(f.e)
             e2 == [i \in 1..n |-> <<CoordFn(a.fn, i - 1, f.e[i][1], n), f.e[i][2]>>]
         IN Outcome(Fib(SortByCoord(e2)), "ok")
    [] a.op = "updpayloads" ->   \* applied to the elements iteration presents (non-empty ones), each at its own position
         Outcome(Fib([i \in 1..Len(f.e) |-> IF IsEmptyP(f.e[i][2], 0) THEN f.e[i] ELSE <<f.e[i][1], Leaf(ValFn(a.fn, f.e[i][2].v))>>]), "ok")

WriteVal(kind, old, v) == CASE kind = "assign" -> v [] kind = "add" -> old + v [] kind = "mul" -> old * v

Apply(tree, depth, a) ==
  CASE a.op = "ref" ->                      \* getPayloadRef(*pt), nothing written
         Outcome(Ensure(tree, a.pt, depth), "ok")
    [] a.op \in {"write", "poswrite"} ->    \* r = getPayloadRef(*pt) ; r <<= v | r += v | r *= v      (poswrite: the position route, p = f.getPositionRef(c) ; f[p] <<= v | f[p] += v | f[p] *= v)
         LET t1  == Ensure(tree, a.pt, depth)
             old == AtPath(t1, a.pt).v
         IN Outcome(PutPath(t1, a.pt, Leaf(WriteVal(a.kind, old, a.v))), "ok")
    [] a.op \in {"get", "getpos", "len", "noop", "obs"} -> Outcome(tree, "ok")      \* observers
    [] a.op = "fref" -> Outcome(tree, "ok")         \* a handle on the (interior) fiber at a.path is taken and kept
    [] a.op = "detached" ->                         \* elements created and written through a kept handle whose fiber has LEFT the tree (an ancestor was cleared /
         Outcome(tree, "ok")                        \* assigned over since): the released fiber belongs to nobody, nothing of the tensor changes
    [] a.op = "hwrite" ->                   \* write through a handle obtained earlier by getPayloadRef(*pt)
         Outcome(PutPath(tree, a.pt, Leaf(WriteVal(a.kind, AtPath(tree, a.pt).v, a.v))), "ok")
    [] a.op = "setroot" ->                  \* Tensor.setRoot(fiber) on a tensor that already has a root: the tree IS the given fiber from then on
         Outcome(Fib(a.other), "ok")
    [] a.op = "dlookup" ->                  \* deprecated insertOrLookup(c) without a value: the element is created if absent (like getPayloadRef)
         Outcome(Ensure(tree, Append(a.path, a.c), depth), "ok")
    [] a.op = "dinsert" ->                  \* deprecated insert(c, v) on a leaf fiber: the coordinate holds v afterwards, stored once
         Outcome(PutPath(Ensure(tree, Append(a.path, a.c), depth), Append(a.path, a.c), Leaf(a.v)), "ok")
    [] a.op = "getposref" ->                \* getPositionRef(c) on the fiber at path: creates the element if absent
         Outcome(Ensure(tree, Append(a.path, a.c), depth), "ok")
    [] OTHER ->
         LET f == FiberAt(tree, a.path)
             r == ApplyFiber(f, a, depth - Len(a.path))
         IN Outcome(PutPath(tree, a.path, r.tree), r.exc)

\* does the action make sense in this state (used by the generator; the validator re-checks it as a precondition)
FiberPaths(tree, depth) == UNION {PathsAt(tree, <<>>, d) : d \in 0..(depth - 1)}
LeafPaths(tree, depth)  == PathsAt(tree, <<>>, depth - 1)

\* documented precondition of a search-start shortcut: position p holds a coordinate <= c (p = 0 always legal); -1 = None
LegalSP(e, c, sp) == sp = -1 \/ (sp = 0 /\ Len(e) > 0) \/ (sp > 0 /\ sp < Len(e) /\ e[sp + 1][1] <= c)

Enabled(tree, depth, a) ==
  CASE a.op \in {"ref"}   -> Len(a.pt) \in 1..depth /\ (a.sp = -1 \/ (Len(a.pt) = 1 /\ tree.k = "F" /\ LegalSP(tree.e, a.pt[1], a.sp)))     \* a search-start shortcut at the top level only
    [] a.op = "write"      -> Len(a.pt) = depth
    [] a.op = "poswrite"   -> Len(a.pt) = depth /\ SubSeq(a.pt, 1, depth - 1) \in LeafPaths(tree, depth)       \* the leaf fiber is reached first, then addressed by position
    [] a.op = "hwrite"     -> Len(a.pt) = depth /\ AtPath(tree, a.pt).k = "L"
    [] a.op = "get"        -> /\ a.path \in FiberPaths(tree, depth) /\ Len(a.path) + Len(a.pt) <= depth /\ Len(a.pt) >= 1
                              /\ LegalSP(FiberAt(tree, a.path).e, a.pt[1], a.sp) /\ (a.sp # -1 => Len(a.pt) = 1)
    [] a.op = "fref"    -> a.path \in FiberPaths(tree, depth) /\ Len(a.path) >= 1
    [] a.op = "dlookup" -> a.path \in FiberPaths(tree, depth)
    [] a.op = "dinsert" -> a.path \in LeafPaths(tree, depth)
    [] a.op \in {"getpos", "getposref"} -> a.path \in FiberPaths(tree, depth) /\ LegalSP(FiberAt(tree, a.path).e, a.c, a.sp)
    [] a.op \in {"append", "extend", "fimul", "fiadd", "updpayloads"} -> a.path \in LeafPaths(tree, depth)
    [] a.op = "setitem"    -> a.path \in LeafPaths(tree, depth) /\ a.pos < Len(FiberAt(tree, a.path).e)
    [] a.op \in {"clear", "itershaperef", "updcoords"} -> a.path \in FiberPaths(tree, depth)
    [] a.op = "fassign"    -> a.path \in FiberPaths(tree, depth) /\ a.lv = depth - Len(a.path)      \* operand has the depth of the target
    [] OTHER -> TRUE
=============================================================================
