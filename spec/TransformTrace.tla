--------------------------- MODULE TransformTrace ---------------------------
(* trace validation for C09: every rank transform executed on the implementation moves every point to its image and nothing else *)
EXTENDS FTTransform, Json, IOUtils
Log == ndJsonDeserialize(IOEnv.TRACE_FILE)
VARIABLES i, done
vars == <<i, done>>
RECURSIVE Abs(_)
Abs(p) == IF p.k = "F" THEN Fib([k \in 1..Len(p.e) |-> <<p.e[k][1], Abs(p.e[k][2])>>])
          ELSE IF p.k = "L" THEN Leaf(p.v) ELSE [k |-> "X"]
\* content relative to the leaf default of the case (0 unless the case says otherwise)
C0(B) == Content(Abs(B.pre.root), B.dflt)
CRd(r, d) == Content(Abs(r.root), d)
CR(r) == CRd(r, 0)
\* a result is a well-formed tree; if it is a tensor its rank lists mirror it
ResultWF(r, n) == /\ NoForeign(r.root) /\ ParallelLists(r.root) /\ WFS(r.root) /\ DepthIs(r.root, n)
                  /\ (r.rank0 = 0 /\ Len(r.ranks) > 0) => ((\A k \in 1..Len(r.ranks) : RankListOK(r, k)) /\ OwnersOK(r.root, 0) /\ ChainOK(r) /\ RootFirst(r) /\ Len(r.ranks) = n)
RECURSIVE PairNest(_)
PairNest(L) == IF L = 0 THEN "i" ELSE "(i" \o PairNest(L - 1) \o ")"
RECURSIVE Is(_)
Is(k) == IF k = 0 THEN "" ELSE "i" \o Is(k - 1)
ExpNest(style, L) == IF style = "pair" THEN PairNest(L) ELSE IF style = "tuple" THEN "(" \o Is(L + 1) \o ")" ELSE "i"
Judge(B) ==
  LET n == B.depth  sh == B.shapes IN
  IF B.exc # "ok" THEN
      \* the Fiber-level entry points reject a fiber without non-empty elements (pinned by the repository's tests: swapRanks of an empty
      \* fiber raises); only the Tensor-level calls must handle the empty tensor
      IF B.via = "fiber" /\ C0(B) = {} THEN <<"S:fiber-entry-rejects-empty">>
      ELSE <<IF B.empty = 1 THEN "P:C09:empty-tensor" ELSE "P:C09:no-exception">>
  ELSE CASE B.op = "swizzle" ->
         Fails(<< <<"P:C09:result-wf", ResultWF(B.res, n) /\ ResultWF(B.res2, n)>>,
                  <<"P:C09:swizzle-image", NoForeign(B.res.root) => CR(B.res) = SwizzleC(C0(B), B.guide)>>,
                  <<"P:C09:swizzle-inverse", NoForeign(B.res2.root) => (CR(B.res2) = C0(B) /\ B.eq = 1)>> >>)
    [] B.op = "swap" ->
         Fails(<< <<"P:C09:result-wf", ResultWF(B.res, n)>>,
                  <<"P:C09:swap", NoForeign(B.res.root) => CR(B.res) = SwizzleC(C0(B), SwapGuide(n, B.d))>> >>)
    [] B.op = "flatswap" ->
         \* swap of a tensor one of whose ranks already holds tuple coordinates (the result of an earlier flatten, B.fd): points move like in any swap, and
         \* swapping twice restores the flattened tensor
         LET C1 == {<<FlattenPt(x[1], B.fd, 1, B.style, sh), x[2]>> : x \in C0(B)} IN
         Fails(<< <<"P:C09:result-wf", ResultWF(B.res, n - 1)>>,
                  <<"P:C09:swap", NoForeign(B.res.root) => CR(B.res) = SwizzleC(C1, SwapGuide(n - 1, B.d))>>,
                  <<"P:C09:swap-involution", NoForeign(B.res2.root) => CR(B.res2) = C1>> >>)
    [] B.op = "flatten" ->
         Fails(<< <<"P:C09:result-wf", ResultWF(B.res, n - B.levels)>>,
                  <<"P:C09:flatten-image", NoForeign(B.res.root) => CRd(B.res, B.dflt) = {<<FlattenPt(x[1], B.d, B.levels, B.style, sh), x[2]>> : x \in C0(B)}>>,
                  <<"P:C09:flatten-nesting", B.nest = "" \/ B.nest = ExpNest(B.style, B.levels)>>,
                  \* the round trip gives back the operand: same content, and unwritten points read the same default as before (leafdflt: every leaf fiber's default)
                  <<"P:C09:unflatten-inverse", (B.style \in {"tuple", "pair"} /\ B.did2 = 1) => (ResultWF(B.res2, n) /\ CRd(B.res2, B.dflt) = C0(B) /\ B.leafdflt_ok = 1)>> >>)
    [] B.op = "merge" ->
         Fails(<< <<"P:C09:result-wf", ResultWF(B.res, n - B.levels)>>,
                  <<"P:C09:merge-reduce", NoForeign(B.res.root) => CR(B.res) = MergeC(C0(B), B.d, B.levels, B.style, sh, B.fn)>> >>)
    [] B.op = "splitflatten" ->
         Fails(<< <<"P:C09:result-wf", ResultWF(B.res, n)>>,
                  <<"P:C09:split-flatten-id", NoForeign(B.res.root) => (CR(B.res) = C0(B) /\ B.eq = 1)>> >>)
    [] B.op = "splitswizzle" ->
         \* split rank d+1 uniformly (X -> X.1, X.0), exchange the two parts, and back: points move like in any swizzle of the tiled tensor
         LET TP(pt) == SubSeq(pt, 1, B.d) \o << <<(pt[B.d + 1][1] \div B.step) * B.step>>, pt[B.d + 1]>> \o SubSeq(pt, B.d + 2, Len(pt))
             C1 == {<<TP(x[1]), x[2]>> : x \in C0(B)}
         IN Fails(<< <<"P:C09:result-wf", ResultWF(B.res, n + 1) /\ ResultWF(B.res2, n + 1) /\ B.active_ok = 1>>,
                     <<"P:C09:swizzle-image", NoForeign(B.res.root) => CR(B.res) = SwizzleC(C1, SwapGuide(n + 1, B.d))>>,
                     <<"P:C09:swizzle-inverse", NoForeign(B.res2.root) => (CR(B.res2) = C1 /\ B.eq = 1)>> >>)
    [] B.op = "updcoords" ->
         Fails(<< <<"P:C09:result-wf", ResultWF(B.res, n)>>,
                  <<"P:C09:update-below-all", NoForeign(B.res.root) => CR(B.res) = UpdCoordsC(C0(B), B.d, B.fn)>> >>)
    [] B.op = "updpayloads" ->
         Fails(<< <<"P:C09:result-wf", ResultWF(B.res, n)>>,
                  <<"P:C09:update-below-all", NoForeign(B.res.root) => CR(B.res) = {<<x[1], ValFn(B.fn, x[2])>> : x \in C0(B)}>> >>)
    [] OTHER -> <<"S:unknown-op">>
JudgeAll(B) == Judge(B) \o (IF B.exc = "ok" THEN Fails(<< <<"P:C09:operand-untouched", B.post = B.pre>> >>) ELSE <<>>)
Init == i \in 1..Len(Log) /\ done = FALSE
Next == ~done /\ done' = TRUE /\ UNCHANGED i
        /\ LET f == JudgeAll(Log[i]) IN PrintT(ToJson([tid |-> Log[i].tid, fails |-> [k \in 1..Len(f) |-> <<1, f[k]>>], n |-> 1]))
=============================================================================
