------------------------------- MODULE FTCore -------------------------------
(***************************************************************************)
(* Abstract state of fibertrees, shared by every other module.            *)
(*                                                                         *)
(* A payload is                                                            *)
(*    [k |-> "L", v |-> n]                a (singly) boxed leaf value      *)
(*    [k |-> "F", e |-> <<<<c,p>>,..>>]   a fiber: struct-of-lists, zipped *)
(*    [k |-> "X", t |-> "..."]            anything else the projection met *)
(*                                        (unboxed value, double box, ..)  *)
(* Fibers read from the implementation additionally carry                  *)
(*    nc, np : lengths of the raw coords / payloads lists                  *)
(*    o      : index (0-based) of the owning rank in the tensor, -1 none,  *)
(*             -2 a rank that is not one of the tensor's                    *)
(* Coordinates are integers in this module (tuple coordinates are handled  *)
(* by the modules that need them, with sequences of integers).             *)
(***************************************************************************)
EXTENDS Integers, Sequences, FiniteSets, TLC

Leaf(v) == [k |-> "L", v |-> v]
Fib(e)  == [k |-> "F", e |-> e]
AbsP    == [k |-> "N"]                      \* "no element here" (only inside generators)

IsL(p) == p.k = "L"
IsF(p) == p.k = "F"

Max(a, b) == IF a >= b THEN a ELSE b
Min(a, b) == IF a <= b THEN a ELSE b

SeqToSet(s) == {s[i] : i \in 1..Len(s)}

RECURSIVE SetToSortedSeq(_)
SetToSortedSeq(S) == IF S = {} THEN <<>>
                     ELSE LET m == CHOOSE x \in S : \A y \in S : x <= y
                          IN <<m>> \o SetToSortedSeq(S \ {m})

RECURSIVE SumSeq(_)
SumSeq(s) == IF s = <<>> THEN 0 ELSE Head(s) + SumSeq(Tail(s))

(***************************************************************************)
(* Element lists                                                           *)
(***************************************************************************)
CoordsOf(e)   == [i \in 1..Len(e) |-> e[i][1]]
CoordSet(e)   == {e[i][1] : i \in 1..Len(e)}
Sorted(e)     == \A i \in 1..(Len(e) - 1) : e[i][1] < e[i + 1][1]
Has(e, c)     == \E i \in 1..Len(e) : e[i][1] = c
Pos(e, c)     == Cardinality({i \in 1..Len(e) : e[i][1] < c})        \* bisect_left, 0-based
IdxOf(e, c)   == CHOOSE i \in 1..Len(e) : e[i][1] = c
Get(e, c)     == e[IdxOf(e, c)][2]
InsAt(s, i, x) == SubSeq(s, 1, i - 1) \o <<x>> \o SubSeq(s, i, Len(s))   \* x becomes s'[i]
Put(e, c, p)  == IF Has(e, c) THEN [e EXCEPT ![IdxOf(e, c)] = <<c, p>>]
                 ELSE InsAt(e, Pos(e, c) + 1, <<c, p>>)
Del(e, c)     == SelectSeq(e, LAMBDA x : x[1] # c)

(***************************************************************************)
(* Well-formedness (C01)                                                   *)
(***************************************************************************)
\* raw list lengths agree (only fibers projected from the implementation carry nc/np)
ParallelOK(p) == ("nc" \in DOMAIN p) => (p.nc = p.np /\ p.nc = Len(p.e))

RECURSIVE AllFibers(_)
AllFibers(p) == IF p.k # "F" THEN {} ELSE {p} \cup UNION {AllFibers(p.e[i][2]) : i \in 1..Len(p.e)}

RECURSIVE NodeKindsAt(_, _)
\* set of <<depth, kind>> of every node below (and including) p; root fiber has depth 0
NodeKindsAt(p, d) == {<<d, p.k>>} \cup
      (IF p.k = "F" THEN UNION {NodeKindsAt(p.e[i][2], d + 1) : i \in 1..Len(p.e)} ELSE {})

SortedUnique(p)   == \A f \in AllFibers(p) : Sorted(f.e)
ParallelLists(p)  == \A f \in AllFibers(p) : ParallelOK(f)
NoForeign(p)      == \A x \in NodeKindsAt(p, 0) : x[2] \in {"L", "F"}      \* boxed once / interior is fiber
UniformDepth(p)   == LET nk == NodeKindsAt(p, 0)
                         ld == {x[1] : x \in {y \in nk : y[2] = "L"}}
                     IN  /\ Cardinality(ld) <= 1
                         /\ \A x \in nk : x[2] = "F" => \A dd \in ld : x[1] < dd
\* when the depth is known (tensor with n ranks): leaves exactly at depth n
DepthIs(p, n)     == \A x \in NodeKindsAt(p, 0) : (x[2] = "L" => x[1] = n) /\ (x[2] = "F" => x[1] < n)

WF(p) == p.k = "F" /\ NoForeign(p) /\ ParallelLists(p) /\ SortedUnique(p) /\ UniformDepth(p)

(***************************************************************************)
(* Content: the map view (C03, C12, ...)                                    *)
(***************************************************************************)
RECURSIVE ContentP(_, _, _)
ContentP(p, path, dflt) ==
    IF p.k = "L" THEN (IF p.v = dflt THEN {} ELSE {<<path, p.v>>})
    ELSE IF p.k = "F" THEN UNION {ContentP(p.e[i][2], Append(path, p.e[i][1]), dflt) : i \in 1..Len(p.e)}
    ELSE {}
Content(p, dflt) == ContentP(p, <<>>, dflt)

RECURSIVE IsEmptyP(_, _)
IsEmptyP(p, dflt) == IF p.k = "L" THEN p.v = dflt
                     ELSE IF p.k = "F" THEN \A i \in 1..Len(p.e) : IsEmptyP(p.e[i][2], dflt)
                     ELSE FALSE
\* what occupancy iteration of a compressed rank presents
Present(e, dflt) == SelectSeq(e, LAMBDA x : ~IsEmptyP(x[2], dflt))

\* stored points (paths to every stored element, leaf or interior)
RECURSIVE StoredP(_, _)
StoredP(p, path) == IF p.k # "F" THEN {}
                    ELSE UNION {{Append(path, p.e[i][1])} \cup StoredP(p.e[i][2], Append(path, p.e[i][1])) : i \in 1..Len(p.e)}
Stored(p) == StoredP(p, <<>>)

\* paths of the fibers at depth d (root: <<>> at depth 0) - duplicates of coordinates collapse, which the
\* rank-mirror predicate detects through the count
RECURSIVE PathsAt(_, _, _)
PathsAt(p, path, d) == IF p.k # "F" THEN {}
                       ELSE IF d = 0 THEN {path}
                       ELSE UNION {PathsAt(p.e[i][2], Append(path, p.e[i][1]), d - 1) : i \in 1..Len(p.e)}
RECURSIVE CountFibersAt(_, _)
CountFibersAt(p, d) == IF p.k # "F" THEN 0
                       ELSE IF d = 0 THEN 1
                       ELSE SumSeq([i \in 1..Len(p.e) |-> CountFibersAt(p.e[i][2], d - 1)])

\* sub-payload at a path (sequence of coordinates); AbsP if the path is not stored
RECURSIVE AtPath(_, _)
AtPath(p, path) == IF path = <<>> THEN p
                   ELSE IF p.k = "F" /\ Has(p.e, Head(path)) THEN AtPath(Get(p.e, Head(path)), Tail(path))
                   ELSE AbsP

\* replace / create the payload at a path; missing interior fibers are created empty (getPayloadRef semantics)
RECURSIVE PutPath(_, _, _)
PutPath(p, path, q) ==
    IF path = <<>> THEN q
    ELSE LET c == Head(path)
             sub == IF Has(p.e, c) THEN Get(p.e, c) ELSE Fib(<<>>)
         IN [p EXCEPT !.e = Put(p.e, c, PutPath(sub, Tail(path), q))]

(***************************************************************************)
(* Rank mirror (C02).  A tensor projection is                              *)
(*   [root |-> payload, ranks |-> <<[fibers |-> <<[p |-> path, s |-> 0/1]>>, next |-> j]>>]*)
(* fibers[i].s = 1 marks an object in Rank.fibers that a raw walk from the *)
(* root never meets (stale).                                               *)
(***************************************************************************)
RankListOK(t, i) ==
    LET fs == t.ranks[i].fibers
    IN  /\ \A j \in 1..Len(fs) : fs[j].s = 0                                        \* none stale
        /\ \A j, k \in 1..Len(fs) : j # k => fs[j].p # fs[k].p                       \* each once
        /\ {fs[j].p : j \in 1..Len(fs)} = PathsAt(t.root, <<>>, i - 1)              \* none missing, none extra
        /\ Len(fs) = CountFibersAt(t.root, i - 1)
RECURSIVE OwnersOK(_, _)
OwnersOK(p, d) == IF p.k # "F" THEN TRUE
                  ELSE p.o = d /\ \A i \in 1..Len(p.e) : OwnersOK(p.e[i][2], d + 1)
ChainOK(t) == \A i \in 1..Len(t.ranks) : t.ranks[i].next = (IF i < Len(t.ranks) THEN i ELSE -1)   \* 0-based index of next
RootFirst(t) == Len(t.ranks) >= 1 => (Len(t.ranks[1].fibers) = 1 /\ t.ranks[1].fibers[1].p = <<>> /\ t.ranks[1].fibers[1].s = 0)
RankMirror(t) == /\ \A i \in 1..Len(t.ranks) : RankListOK(t, i)
                 /\ OwnersOK(t.root, 0) /\ ChainOK(t) /\ RootFirst(t)

(***************************************************************************)
(* Bounded domains: all trees over coordinates 0..nc-1, leaf values V      *)
(***************************************************************************)
ZipF(g, nc) == SelectSeq([i \in 1..nc |-> <<i - 1, g[i - 1]>>], LAMBDA x : x[2].k # "N")
Trees1(nc, V) == {ZipF(g, nc) : g \in [0..(nc - 1) -> {AbsP} \cup {Leaf(v) : v \in V}]}
Trees2(nc, V) == {ZipF(g, nc) : g \in [0..(nc - 1) -> {AbsP} \cup {Fib(e) : e \in Trees1(nc, V)}]}
Trees3(nc, V) == {ZipF(g, nc) : g \in [0..(nc - 1) -> {AbsP} \cup {Fib(e) : e \in Trees2(nc, V)}]}

\* helper for verdict sequences: names of the clauses that are false
Fails(cl) == LET bad == SelectSeq(cl, LAMBDA x : ~x[2]) IN [i \in 1..Len(bad) |-> bad[i][1]]
=============================================================================
