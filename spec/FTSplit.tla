------------------------------ MODULE FTSplit -------------------------------
(***************************************************************************)
(* Splitting a fiber (C08).  Declarative reading:                          *)
(*   boundaries B_1 < B_2 < ... ; partition j = [B_j, B_{j+1}) (last: inf) *)
(*   a partition that misses the active range [lo, hi) does not exist      *)
(*   members(j) = presented elements x with B_j - pre <= x.c < B_{j+1}+post*)
(*   a partition without members does not appear                           *)
(*   upper coordinate = B_j ; lower coordinates absolute or x.c - B_j      *)
(*   active(lower j) = [max(B_j, lo), min(B_{j+1}, hi))                    *)
(* Boundaries: uniform  k*step ; non-uniform: the given list ; equal /     *)
(* unequal: coordinates of the active presented elements at chunk starts,  *)
(* first boundary = active start, surplus elements join the last chunk.    *)
(***************************************************************************)
EXTENDS FTCore

INF == 1000000

\* els: presented elements <<c, payload>> ascending; ActiveEls: those inside [lo, hi)
ActiveEls(els, lo, hi) == SelectSeq(els, LAMBDA x : x[1] >= lo /\ x[1] < hi)

\* ---- boundaries -> sequence of <<b, e>> ----
WithEnds(bs) == [j \in 1..Len(bs) |-> <<bs[j], IF j < Len(bs) THEN bs[j + 1] ELSE INF>>]
\* partitions 0, step, 2*step, ... up to the last one a pre-halo can still reach
UniformParts(step, maxc, pre) == [j \in 1..(((maxc + pre) \div step) + 2) |-> <<(j - 1) * step, j * step>>]
NonUniformParts(splits) == WithEnds(splits)
EqualParts(size, els, lo, hi) ==
    LET ae == ActiveEls(els, lo, hi)
        idx == SelectSeq([k \in 1..Len(ae) |-> k], LAMBDA k : k > 1 /\ (k - 1) % size = 0)
    IN IF Len(ae) = 0 THEN <<>> ELSE WithEnds(<<lo>> \o [k \in 1..Len(idx) |-> ae[idx[k]][1]])
\* chunk starts at cumulative sizes; once the sizes are used up the rest stays in the last chunk
RECURSIVE CumStarts(_, _, _)
CumStarts(sizes, k, pos) == IF k > Len(sizes) THEN <<>> ELSE <<pos + sizes[k]>> \o CumStarts(sizes, k + 1, pos + sizes[k])
UnEqualParts(sizes, els, lo, hi) ==
    LET ae == ActiveEls(els, lo, hi)
        st == SelectSeq(CumStarts(sizes, 1, 1), LAMBDA p : p <= Len(ae))        \* 1-based positions that start a new chunk
        st2 == st                                                               \* a surplus beyond the sizes forms one more, last chunk
    IN IF Len(ae) = 0 \/ Len(sizes) = 0 THEN <<>> ELSE WithEnds(<<lo>> \o [k \in 1..Len(st2) |-> ae[st2[k]][1]])

\* ---- members ----
Exists(pt, lo, hi) == ~(pt[2] <= lo \/ pt[1] >= hi)
Mem(els, pt, pre, post, lo, hi)  == SelectSeq(els, LAMBDA x : x[1] >= pt[1] - pre /\ x[1] < pt[2] + post /\ x[1] >= lo - pre /\ x[1] < hi + post)
MemA(els, pt, pre, post, lo, hi) == SelectSeq(els, LAMBDA x : x[1] >= pt[1] - pre /\ x[1] < pt[2] + post /\ x[1] >= lo /\ x[1] < hi)
\* the partitions that must appear (an active element is a member) and those that may appear (any member)
Need(els, parts, pre, post, lo, hi) == SelectSeq(parts, LAMBDA pt : Exists(pt, lo, hi) /\ Len(MemA(els, pt, pre, post, lo, hi)) > 0)
May(els, parts, pre, post, lo, hi)  == SelectSeq(parts, LAMBDA pt : Exists(pt, lo, hi) /\ Len(Mem(els, pt, pre, post, lo, hi)) > 0)
ActOf(pt, lo, hi) == <<Max(pt[1], lo), Min(pt[2], hi)>>

\* ---- laws (design level) ----
RECURSIVE Concat(_)
Concat(ss) == IF ss = <<>> THEN <<>> ELSE Head(ss) \o Concat(Tail(ss))
\* halo 0: the needed partitions list every active element at or after the first boundary exactly once, in order
LosslessLaw(els, parts, lo, hi) ==
    LET nd == Need(els, parts, 0, 0, lo, hi)
        first == IF Len(parts) = 0 THEN INF ELSE parts[1][1]
    IN Concat([j \in 1..Len(nd) |-> MemA(els, nd[j], 0, 0, lo, hi)]) = SelectSeq(ActiveEls(els, lo, hi), LAMBDA x : x[1] >= first)
=============================================================================
