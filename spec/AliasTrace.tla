----------------------------- MODULE AliasTrace -----------------------------
(* trace validation for C10 *)
EXTENDS FTAlias, Json, IOUtils
Log == ndJsonDeserialize(IOEnv.TRACE_FILE)
VARIABLES i, done
vars == <<i, done>>
S(x) == SeqToSet(x)
JudgeValue(B) ==
  Fails(<<
    <<"P:C10:operand-unchanged", B.post = B.pre>>,
    <<"P:C10:no-shared-fiber", Disjoint(S(B.res_ids.fibers), S(B.op_ids.fibers))>>,
    <<"P:C10:no-shared-box",   Disjoint(S(B.res_ids.boxes),  S(B.op_ids.boxes))>>,
    <<"P:C10:no-shared-rank",  Disjoint(S(B.res_ids.ranks),  S(B.op_ids.ranks))>>,
    <<"P:C10:no-shared-attrs", Disjoint(S(B.res_ids.attrs),  S(B.op_ids.attrs))>>,
    \* follow-up mutations: the other side's projection does not move
    <<"P:C10:mutation-invisible", B.after_mut_res.operand = B.pre /\ B.after_mut_op.result = B.res>> >>)
JudgeObserver(B) ==
  Fails(<<
    <<"P:C10:observer-pure", B.post = B.pre>>,
    <<"P:C10:render-deterministic", B.digest1 = B.digest2>> >>)
Judge(B) == IF B.exc # "ok" THEN <<"P:C10:no-exception">> ELSE IF B.kind = "value" THEN JudgeValue(B) ELSE JudgeObserver(B)
Init == i \in 1..Len(Log) /\ done = FALSE
Next == ~done /\ done' = TRUE /\ UNCHANGED i
        /\ LET f == Judge(Log[i]) IN PrintT(ToJson([tid |-> Log[i].tid, fails |-> [k \in 1..Len(f) |-> <<1, f[k]>>], n |-> 1]))
=============================================================================
