------------------------------ MODULE FTKernel ------------------------------
(***************************************************************************)
(* Sum-of-products kernels in the library's idiom (C06, C15, C16).         *)
(*                                                                         *)
(*   expr  == [out |-> <<vars>>, facs |-> << [t |-> name, ix |-> <<vars>>] >>] *)
(*   ops   == [name |-> content]   content: set of <<point, value>>, the   *)
(*            point in the order of the factor's ix (operands are          *)
(*            swizzled to the loop order, so ix is a subsequence of order) *)
(*   order == <<vars>>  the loop order                                     *)
(*                                                                         *)
(* Declarative: Dense(expr, ops) - the mathematical sum of products.       *)
(* Operational: the loop-nest machine - per loop level the factors that    *)
(* carry the index are intersected (two-finger), the output cursor is      *)
(* advanced by populate when the index is an output index, and at the leaf *)
(* the product is accumulated in place.  The machine also counts the       *)
(* payload operations and the loop bodies per level and emits the rows of  *)
(* the iteration traces.                                                   *)
(***************************************************************************)
EXTENDS FTCore, TLC

\* sorted sequence of a set of strings is not available (no order on strings in TLC): any enumeration order serves
RECURSIVE SetToSortedSeqS(_)
SetToSortedSeqS(S) == IF S = {} THEN <<>> ELSE LET x == CHOOSE y \in S : TRUE IN <<x>> \o SetToSortedSeqS(S \ {x})
Vars(expr) == UNION {SeqToSet(expr.facs[i].ix) : i \in 1..Len(expr.facs)}
PosIn(s, x) == CHOOSE k \in 1..Len(s) : s[k] = x
\* content entries of factor f consistent with a partial assignment (a function from some variables to coordinates)
Consistent(f, ops, asg) == {x \in ops[f.t] : \A k \in 1..Len(f.ix) : f.ix[k] \in DOMAIN asg => x[1][k] = asg[f.ix[k]]}
CoordsAt(f, ops, asg, v) == {x[1][PosIn(f.ix, v)] : x \in Consistent(f, ops, asg)}
ValAt(f, ops, asg) == LET S == Consistent(f, ops, asg) IN IF S = {} THEN 0 ELSE (CHOOSE x \in S : TRUE)[2]

RECURSIVE ProdSeq(_)
ProdSeq(s) == IF s = <<>> THEN 1 ELSE Head(s) * ProdSeq(Tail(s))

\* ---- declarative ----
RECURSIVE AllAsg(_, _)
\* all total assignments over the variable sequence vs with coordinates from C
AllAsg(vs, C) == IF vs = <<>> THEN {<<>>} ELSE {[v \in {Head(vs)} |-> c] @@ a : c \in C, a \in AllAsg(Tail(vs), C)}
TermOf(expr, ops, asg) == ProdSeq([i \in 1..Len(expr.facs) |-> ValAt(expr.facs[i], ops, asg)])
OutPt(expr, asg) == [k \in 1..Len(expr.out) |-> asg[expr.out[k]]]
RECURSIVE SumSet(_, _, _)
SumSet(S, expr, ops) == IF S = {} THEN 0 ELSE LET a == CHOOSE x \in S : TRUE IN TermOf(expr, ops, a) + SumSet(S \ {a}, expr, ops)
Dense(expr, ops, order, C) ==
    LET A == AllAsg(order, C)
        pts == {OutPt(expr, a) : a \in A}
    IN {y \in {<<p, SumSet({a \in A : OutPt(expr, a) = p}, expr, ops)>> : p \in pts} : y[2] # 0}

\* ---- operational: the loop-nest machine ----
\* st = [z |-> set of <<pt, v>>, mul, add, upd |-> counters, it |-> bodies per loop level, rows |-> per level the iteration-trace rows]
ZGet(z, p) == IF \E x \in z : x[1] = p THEN (CHOOSE x \in z : x[1] = p)[2] ELSE 0
ZPut(z, p, v) == {x \in z : x[1] # p} \cup (IF v = 0 THEN {} ELSE {<<p, v>>})       \* a sum that cancels leaves no element (populate removes it)

RECURSIVE RunLevel(_, _, _, _, _, _, _, _)
RECURSIVE RunCoords(_, _, _, _, _, _, _, _, _, _)
\* stamp: iteration counters of the enclosing levels; pt: coordinates of the enclosing levels
\* cfg == [ufmt |-> set of <<tensor, variable>> whose rank is declared uncompressed (the whole extent is presented, absent elements as defaults),
\*         ext |-> extent per variable, nofilter |-> TRUE when the body accumulates every product, zero ones included]
CoordsAtX(f, ops, asg, v, cfg) == IF <<f.t, v>> \in cfg.ufmt THEN 0..(cfg.ext[v] - 1) ELSE CoordsAt(f, ops, asg, v)
RunLevel(expr, ops, order, lvl, asg, ctx, st, cfg) ==
    IF lvl > Len(order)
    THEN LET vals == [i \in 1..Len(expr.facs) |-> ValAt(expr.facs[i], ops, asg)]
             prod == ProdSeq(vals)
             p    == OutPt(expr, asg)
             old  == ZGet(st.z, p)
             st1  == [st EXCEPT !.mul = @ + Len(expr.facs) - 1]
         IN IF prod = 0 /\ ~cfg.nofilter THEN st1
            ELSE [st1 EXCEPT !.z = ZPut(@, p, old + prod), !.upd = @ + 1, !.add = @ + (IF old # 0 THEN 1 ELSE 0)]
    ELSE LET v    == order[lvl]
             part == SelectSeq(expr.facs, LAMBDA f : v \in SeqToSet(f.ix))
             cs   == IF Len(part) = 0 THEN {} ELSE {c \in CoordsAtX(part[1], ops, asg, v, cfg) : \A k \in 2..Len(part) : c \in CoordsAtX(part[k], ops, asg, v, cfg)}
         IN RunCoords(expr, ops, order, lvl, asg, ctx, st, SetToSortedSeq(cs), 1, cfg)
RunCoords(expr, ops, order, lvl, asg, ctx, st, cs, k, cfg) ==
    IF k > Len(cs) THEN st
    ELSE LET c    == cs[k]
             row  == [stamp |-> Append(ctx.stamp, k - 1), point |-> Append(ctx.point, c), pos |-> k - 1]
             st1  == [st EXCEPT !.it[lvl] = @ + 1, !.rows[lvl] = Append(@, row)]
             st2  == RunLevel(expr, ops, order, lvl + 1, asg @@ (order[lvl] :> c), [stamp |-> row.stamp, point |-> row.point], st1, cfg)
             \* did this body execution write into the output (then its output element survives the populate step)?
             n    == Len(st1.rows[lvl])
             st3  == [st2 EXCEPT !.wrote[lvl] = Append(@, st2.upd > st1.upd)]
         IN RunCoords(expr, ops, order, lvl, asg, ctx, st3, cs, k + 1, cfg)
RunX(expr, ops, order, cfg) ==
    RunLevel(expr, ops, order, 1, <<>>, [stamp |-> <<>>, point |-> <<>>],
             [z |-> {}, mul |-> 0, add |-> 0, upd |-> 0, it |-> [k \in 1..Len(order) |-> 0], rows |-> [k \in 1..Len(order) |-> <<>>], wrote |-> [k \in 1..Len(order) |-> <<>>]], cfg)
Run(expr, ops, order) == RunX(expr, ops, order, [ufmt |-> {}, ext |-> <<>>, nofilter |-> FALSE])

\* ---- element-wise addition  Z[m] = A[m] + B[m]  in the union idiom:
\*      for m, (z_ref, (mask, a_val, b_val)) in z_m << (a_m | b_m): z_ref <<= a_val + b_val
\* one "+" and one "<<=" per coordinate of the union
RunAdd(ops) ==
    LET ca == {x[1][1] : x \in ops["A"]}  cb == {x[1][1] : x \in ops["B"]}
        cs == ca \cup cb
        val(c) == (IF c \in ca THEN (CHOOSE x \in ops["A"] : x[1][1] = c)[2] ELSE 0) + (IF c \in cb THEN (CHOOSE x \in ops["B"] : x[1][1] = c)[2] ELSE 0)
        sq == SetToSortedSeq(cs)
    IN [z |-> {y \in {<<<<c>>, val(c)>> : c \in cs} : y[2] # 0}, mul |-> 0, add |-> Cardinality(cs), upd |-> Cardinality(cs), it |-> <<Cardinality(cs)>>,
        rows |-> << [k \in 1..Len(sq) |-> [stamp |-> <<k - 1>>, point |-> <<sq[k]>>, pos |-> k - 1]] >>, wrote |-> << [k \in 1..Len(sq) |-> TRUE] >>]

\* dense product reduction  P[m] = prod_k A[m,k]  over the whole extent K of every stored row:
\*      for m, (p_ref, a_k) in p_m << a_m:  p_ref <<= 1 ;  for k, a_val in a_k.iterShape(): p_ref *= a_val
\* one "<<=" per offered row, one "*=" (a multiply and an update) per coordinate of the extent - whatever the running product holds
RECURSIVE ProdRow(_, _, _)
ProdRow(A, m, k) == IF k = 0 THEN 1 ELSE ProdRow(A, m, k - 1) * (IF \E x \in A : x[1] = <<m, k - 1>> THEN (CHOOSE x \in A : x[1] = <<m, k - 1>>)[2] ELSE 0)
RunProd(ops, K) ==
    LET rows == {x[1][1] : x \in ops["A"]}
        sq   == SetToSortedSeq(rows)
    IN [z |-> {y \in {<<<<m>>, ProdRow(ops["A"], m, K)>> : m \in rows} : y[2] # 0}, mul |-> Cardinality(rows) * K, add |-> 0, upd |-> Cardinality(rows) * (K + 1),
        it |-> <<Cardinality(rows)>>,
        rows |-> << [k \in 1..Len(sq) |-> [stamp |-> <<k - 1>>, point |-> <<sq[k]>>, pos |-> k - 1]] >>, wrote |-> << [k \in 1..Len(sq) |-> TRUE] >>]

\* ---- tiling: variable v of every operand is split uniformly with step s into (v1, v0): v1 = (c div s) * s, v0 = c ----
TilePt(pt, k, s) == SubSeq(pt, 1, k - 1) \o <<(pt[k] \div s) * s, pt[k]>> \o SubSeq(pt, k + 1, Len(pt))
TileContent(C, k, s) == {<<TilePt(x[1], k, s), x[2]>> : x \in C}
UntilePt(pt, k) == SubSeq(pt, 1, k - 1) \o SubSeq(pt, k + 1, Len(pt))
=============================================================================
