--------------------------- MODULE ProjRowsTrace ---------------------------
(***************************************************************************)
(* Trace validation for C16, project_i traces.  One log line = one loop    *)
(* nest                                                                    *)
(*     for s in f_s:  for q in i_w.project(w -> a*w + b + cs*s, interval)  *)
(* run three times under collection (flush thresholds, consumable).  The   *)
(* CSV file of every (rank, type) is consumed row by row against the       *)
(* projection slice of FTTraverse (ProjectIdx) applied per outer body.     *)
(*   mode "dst": the projected (lazy) fiber is the loop operand, rank Q    *)
(*   mode "src": the source ticks (tick=True), the loop rank is W          *)
(***************************************************************************)
EXTENDS FTTraverse, Json, IOUtils
Log == ndJsonDeserialize(IOEnv.TRACE_FILE)
VARIABLES i, done
vars == <<i, done>>

RECURSIVE Cat(_)
Cat(ss) == IF ss = <<>> THEN <<>> ELSE Head(ss) \o Cat(Tail(ss))
RECURSIVE LexLeq(_, _)
LexLeq(a, b) == IF a = <<>> THEN TRUE ELSE IF Head(a) < Head(b) THEN TRUE ELSE IF Head(a) > Head(b) THEN FALSE ELSE LexLeq(Tail(a), Tail(b))
RowStamp(r, L) == SubSeq(r, 1, L)
RowPoint(r, L) == SubSeq(r, L + 1, 2 * L)
RowPos(r, L) == r[2 * L + 1]
WellShaped(rows, L) == \A k \in 1..Len(rows) : Len(rows[k]) = 2 * L + 1
StampsSorted(rows, L, strict) == \A k \in 1..(Len(rows) - 1) : LexLeq(RowStamp(rows[k], L), RowStamp(rows[k + 1], L)) /\ (strict => RowStamp(rows[k], L) # RowStamp(rows[k + 1], L))

\* outer loop bodies: <<coordinate, stored position>> of the non-empty elements of f_s; without an outer loop one body that is no rank
Outer(B) == IF B.outer = 1 THEN LET e == B.fs.e  ix == SliceIdx(e, 0, 0, 0, 0, 0) IN [k \in 1..Len(ix) |-> <<e[ix[k]][1], ix[k] - 1>>] ELSE << <<0, 0>> >>
Off(B, s) == B.b + B.cs * s
\* per outer body: the stored indices (1-based) of the source elements the projection delivers, in delivery order
Idx(B, s) == ProjectIdx(B.iw.e, B.dflt, B.a, Off(B, s), B.hasiv, B.iv[1], B.iv[2])
\* the non-empty source elements (everything the ticking source walks in mode "src"), in walking order
Walk(B) == LET ix0 == SliceIdx(B.iw.e, B.dflt, 0, 0, 0, 0)
               ix  == SelectSeq(ix0, LAMBDA j : B.sp = -1 \/ j > B.sp)            \* a saved position skips the elements stored before it
           IN IF B.a > 0 THEN ix ELSE [k \in 1..Len(ix) |-> ix[Len(ix) + 1 - k]]

Pre(B, ks, x) == IF B.outer = 1 THEN <<x>> ELSE <<>>
ExpYs(B) == LET os == Outer(B) IN Cat([ks \in 1..Len(os) |-> LET s == os[ks][1]  ix == Idx(B, s) IN
                 [k \in 1..Len(ix) |-> <<s, Affine(B.a, Off(B, s), B.iw.e[ix[k]][1]), B.iw.e[ix[k]][2].v>>]])
\* expected rows [stamp, point, pos]; stamps of project rows are only required to be ordered, the exact ones are a conformance note in mode "dst"
ExpProject(B) == LET os == Outer(B) IN Cat([ks \in 1..Len(os) |-> LET s == os[ks][1]  ix == Idx(B, s) IN
                 [k \in 1..Len(ix) |-> [stamp |-> Pre(B, ks, ks - 1) \o <<k - 1>>, point |-> Pre(B, ks, s) \o <<B.iw.e[ix[k]][1]>>, pos |-> ix[k] - 1]]])
ExpLoopIter(B) == LET os == Outer(B) IN
    IF B.mode = "dst"
    THEN Cat([ks \in 1..Len(os) |-> LET s == os[ks][1]  ix == Idx(B, s) IN
                 [k \in 1..Len(ix) |-> [stamp |-> Pre(B, ks, ks - 1) \o <<k - 1>>, point |-> Pre(B, ks, s) \o <<Affine(B.a, Off(B, s), B.iw.e[ix[k]][1])>>, pos |-> k - 1]]])
    ELSE Cat([ks \in 1..Len(os) |-> LET s == os[ks][1]  ix == Walk(B) IN
                 [k \in 1..Len(ix) |-> [stamp |-> Pre(B, ks, ks - 1) \o <<k - 1>>, point |-> Pre(B, ks, s) \o <<B.iw.e[ix[k]][1]>>,
                                        pos |-> ix[k] - 1]]])
ExpOuterIter(B) == LET os == Outer(B) IN [ks \in 1..Len(os) |-> [stamp |-> <<ks - 1>>, point |-> <<os[ks][1]>>, pos |-> os[ks][2]]]

Header(names) == [k \in 1..Len(names) |-> names[k] \o "_pos"] \o names \o <<"fiber_pos">>

JudgeRows(F, rows, exp, L, names, strict, exactStamps) ==
  LET shape == WellShaped(rows, L)
      same  == shape /\ Len(rows) = Len(exp)
  IN Fails(<<
       <<"P:C16:header", F.header = Header(names)>>,
       <<"P:C16:one-row-per-access", same>>,
       <<"P:C16:point", same => \A k \in 1..Len(rows) : RowPoint(rows[k], L) = exp[k].point>>,
       <<IF strict THEN "P:C16:iter-strict" ELSE "P:C16:stamp-sorted", shape => StampsSorted(rows, L, strict)>>,
       <<"P:C16:pos-" \o F.type, same => \A k \in 1..Len(rows) : RowPos(rows[k], L) = exp[k].pos>>,
       <<"S:stamp-exact", (same /\ exactStamps) => \A k \in 1..Len(rows) : RowStamp(rows[k], L) = exp[k].stamp>> >>)

JudgeFile(B, F) ==
  LET L      == B.outer + 1
      lr     == IF B.mode = "dst" THEN "Q" ELSE "W"
      names  == (IF B.outer = 1 THEN <<"S">> ELSE <<>>) \o <<lr>>
      none   == F.exists = 0 \/ (F.header = <<>> /\ F.rows = <<>>)
      exp    == IF F.rank = "W" /\ F.type = "project_0" THEN ExpProject(B)
                ELSE IF F.rank = lr /\ F.type = "iter" THEN ExpLoopIter(B)
                ELSE IF F.rank = "S" /\ F.type = "iter" THEN ExpOuterIter(B)
                ELSE <<>>
  IN IF none \/ exp = <<>> THEN (IF Len(F.rows) # Len(exp) THEN <<"P:C16:one-row-per-access">> ELSE <<>>)
     ELSE IF F.rank = "S" THEN JudgeRows(F, F.rows, exp, 1, <<"S">>, TRUE, TRUE)
     ELSE JudgeRows(F, F.rows, exp, L, names, F.type = "iter", B.mode = "dst" \/ F.type = "iter")

Judge(B) ==
  LET n  == Len(B.runs)
      ok == \A r \in 1..n : B.runs[r].exc = "ok"
      R  == B.runs[1]
  IN IF ~ok THEN <<"P:C16:no-exception">>
     ELSE Cat([k \in 1..Len(R.files) |-> JudgeFile(B, R.files[k])])
          \o Fails(<< <<"S:project-yields", \A r \in 1..n : B.runs[r].ys = ExpYs(B)>>,
                      <<"P:C16:flush-independent", \A r \in 2..n : B.runs[r].files = R.files>>,
                      <<"P:C16:consumable-same", \A r \in 1..n : \A c \in 1..Len(B.runs[r].consumed) : B.runs[r].consumed[c].rows = B.runs[r].consumed[c].filerows>> >>)
Init == i \in 1..Len(Log) /\ done = FALSE
Next == ~done /\ done' = TRUE /\ UNCHANGED i
        /\ LET f == Judge(Log[i]) IN PrintT(ToJson([tid |-> Log[i].tid, fails |-> [k \in 1..Len(f) |-> <<1, f[k]>>], n |-> Len(Log[i].runs)]))
=============================================================================
