------------------------------ MODULE PopTrace ------------------------------
(***************************************************************************)
(* Trace validation for C05 (and the populate part of C01 / C02): each log *)
(* line is one executed program  for c, (zr, ar) in z << a: body(script).  *)
(* The recorded offers, the state of z at every body execution, the final  *)
(* state of z and of a are judged against FTPopulate.                      *)
(***************************************************************************)
EXTENDS FTPopulate, Json, IOUtils

Log == ndJsonDeserialize(IOEnv.TRACE_FILE)
VARIABLES i, done
vars == <<i, done>>
B == Log[i]

RECURSIVE Abs(_)
Abs(p) == IF p.k = "F" THEN Fib([k \in 1..Len(p.e) |-> <<p.e[k][1], Abs(p.e[k][2])>>])
          ELSE IF p.k = "L" THEN Leaf(p.v) ELSE [k |-> "X"]

Good(root, depth) == NoForeign(root) /\ ParallelLists(root) /\ SortedUnique(root) /\ DepthIs(root, depth)
MirrorOK(ps) == (\A r \in 1..Len(ps.ranks) : RankListOK(ps, r)) /\ OwnersOK(ps.root, 0) /\ ChainOK(ps) /\ RootFirst(ps)
Under(m, p) == {<<SubSeq(x[1], Len(p) + 1, Len(x[1])), x[2]>> : x \in {y \in m : IsPrefix(p, y[1])}}

Judge ==
  LET z0  == Abs(B.z0)
      \* a source rank declared uncompressed presents every coordinate of its shape (absent ones with the default): the same program as a
      \* compressed source that stores every coordinate, with a "default" that never occurs
      a   == IF B.au = 1 THEN Fib([c \in 1..B.ash |-> <<c - 1, IF Has(Abs(B.a).e, c - 1) THEN Get(Abs(B.a).e, c - 1) ELSE Leaf(B.da)>>]) ELSE Abs(B.a)
      d   == B.depth
      sc  == B.script
      dz  == B.dz
      da  == IF B.au = 1 THEN -7 ELSE B.da
      exp == Offers(a, sc, <<>>, d, da)
      m0  == Content(z0, dz)
      isT == B.emb = "tensor"
      okp == Good(B.post.root, d)
      z1  == Abs(B.post.root)
      midsWF == \A k \in 1..Len(B.mids) : Good(B.mids[k].root, d)
      offP == [k \in 1..Len(B.offers) |-> B.offers[k].p]
      extra == \E k \in 1..Len(sc) : sc[k].ch \in {"touch", "dense", "copyin", "clearit"}      \* bodies outside C05's modelled choices: C01 / C02 clauses only
  IN IF B.exc # "ok" THEN <<"P:C05:no-exception">>
     ELSE IF extra THEN Fails(<<
       <<"P:C05:wf-throughout", midsWF /\ okp>>,
       <<"P:C05:member-throughout", (isT /\ midsWF /\ okp) => (MirrorOK(B.post) /\ \A k \in 1..Len(B.mids) : MirrorOK(B.mids[k]))>> >>)
     ELSE Fails(<<
       <<"P:C05:offers", offP = exp>>,
       <<"P:C05:offer-payload", offP = exp => \A k \in 1..Len(exp) :
             LET av == AtPath(a, exp[k]) IN IF Len(exp[k]) = d THEN B.offers[k].av = av ELSE Abs(B.offers[k].av) = av>>,
       <<"P:C05:ref-shows-current", offP = exp => \A k \in 1..Len(exp) :
             IF Len(exp[k]) = d THEN (B.offers[k].zv.k = "L" /\ B.offers[k].zv.v = MapGet(m0, exp[k], dz))
             ELSE (B.offers[k].zv.k = "F" /\ NoForeign(B.offers[k].zv) /\ Content(Abs(B.offers[k].zv), dz) = Under(m0, exp[k]))>>,
       <<"P:C05:wf-throughout", midsWF /\ okp>>,
       <<"P:C05:member-throughout", (isT /\ midsWF /\ okp) => (MirrorOK(B.post) /\ \A k \in 1..Len(B.mids) : MirrorOK(B.mids[k]))>>,
       <<"P:C05:final-content", okp => FinalOK(z0, z1, a, sc, d, dz, da)>>,
       <<"P:C05:no-residue", okp => NoResidue(z0, z1, a, sc, d, dz, da)>>,
       <<"P:C05:outside-untouched", okp => Outside(z0, z1, a, sc, d, da)>>,
       <<"P:C05:source-unmodified", B.apost = B.a0>>,
       <<"P:C05:active-follows-source", B.zact = B.aact>>,
       <<"S:post-conform", okp => z1 = PopFiber(z0, a, sc, <<>>, d, dz, da)>> >>)

Init == i \in 1..Len(Log) /\ done = FALSE
Next == ~done /\ done' = TRUE /\ UNCHANGED i /\ PrintT(ToJson([tid |-> B.tid, fails |-> [k \in 1..Len(Judge) |-> <<1, Judge[k]>>], n |-> 1 + Len(B.mids)]))
=============================================================================
