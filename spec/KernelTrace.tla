---------------------------- MODULE KernelTrace -----------------------------
(* trace validation for C06: the output of a kernel run on the implementation equals the dense result, whatever the loop order, tiling or intersection style *)
EXTENDS FTKernel, Json, IOUtils
Log == ndJsonDeserialize(IOEnv.TRACE_FILE)
VARIABLES i, done
vars == <<i, done>>
RECURSIVE Abs(_)
Abs(p) == IF p.k = "F" THEN Fib([k \in 1..Len(p.e) |-> <<p.e[k][1], Abs(p.e[k][2])>>])
          ELSE IF p.k = "L" THEN Leaf(p.v) ELSE [k |-> "X"]
OpsFrom(trees, names) == [t \in names |-> Content(Abs(trees[t]), 0)]
ZContent(B) == IF B.z.rank0 = 1 THEN (IF B.z.val = 0 THEN {} ELSE {<<<<>>, B.z.val>>}) ELSE Content(Abs(B.z.t.root), 0)
Judge(B) ==
  LET names == {B.expr0.facs[k].t : k \in 1..Len(B.expr0.facs)}
      C     == 0..(B.nc - 1)
      \* the mathematical result, from the ORIGINAL operands and the declared expression (any order of the variables gives the same sum)
      order0 == LET vs == Vars(B.expr0) IN SetToSortedSeqS(vs)
      dense == Dense(B.expr0, OpsFrom(B.ops0, names), order0, C)
      tiled == B.tile.v # ""
      \* output points of the run, with the tile-start coordinate dropped again
      zc    == ZContent(B)
      kdrop == IF tiled /\ (B.tile.v \o "1") \in SeqToSet(B.expr1.out) THEN PosIn(B.expr1.out, B.tile.v \o "1") ELSE 0
      zun   == IF kdrop = 0 THEN zc ELSE {<<UntilePt(x[1], kdrop), x[2]>> : x \in zc}
      \* dense result in the output-variable order of this run (the declared out order may differ from the loop order)
      out1u == SelectSeq(B.expr1.out, LAMBDA v : v # (B.tile.v \o "1"))
      outn  == [k \in 1..Len(out1u) |-> IF tiled /\ out1u[k] = (B.tile.v \o "0") THEN B.tile.v ELSE out1u[k]]
      denseR == {<<[k \in 1..Len(outn) |-> x[1][PosIn(B.expr0.out, outn[k])]], x[2]>> : x \in dense}
      name  == IF tiled THEN "P:C06:tiling-independent" ELSE IF B.style = "lf" THEN "P:C06:style-independent" ELSE "P:C06:dense-result"
      mach  == Run(B.expr1, OpsFrom(B.ops1, names), B.order)
  IN IF B.exc # "ok" THEN <<"P:C06:no-exception">>
     \* (the output is a TENSOR holding the dense result: a tree whose coordinates are out of order or repeated has no content to speak of)
     ELSE Fails(<< <<name, zun = denseR /\ (B.z.rank0 = 1 \/ (NoForeign(B.z.t.root) /\ ParallelLists(B.z.t.root) /\ SortedUnique(B.z.t.root)))>>,
                   <<"P:C06:operands-unmodified", B.ops_unchanged = 1>>,
                   <<"S:machine-output", B.style = "tf" => zc = mach.z>>,
                   <<"S:machine-bodies", B.style = "tf" => \A k \in 1..Len(B.order) : B.bodies[k] = mach.it[k]>> >>)
Init == i \in 1..Len(Log) /\ done = FALSE
Next == ~done /\ done' = TRUE /\ UNCHANGED i
        /\ LET f == Judge(Log[i]) IN PrintT(ToJson([tid |-> Log[i].tid, fails |-> [k \in 1..Len(f) |-> <<1, f[k]>>], n |-> 1]))
=============================================================================
