----------------------------- MODULE MC_Format ------------------------------
(* design level: the two traversals agree - tensor = root + sub-tree of the root + rank headers - whenever all ranks are compressed and the tree is canonical;
   and every footprint is monotone in each width *)
EXTENDS FTFormat
CONSTANTS NC
VARIABLES e, w
vars == <<e, w>>
Canon2 == {t \in Trees2(NC, {1}) : \A i \in 1..Len(t) : Len(t[i][2].e) > 0}
Ws == {0, 1, 3}
Init == e \in Canon2 /\ w \in [1..6 -> Ws]
Next == UNCHANGED vars
Spec2 == << [fmt |-> "C", rh |-> w[1], fh |-> w[2], c |-> w[3], p |-> w[4], layout |-> ""],
            [fmt |-> "", rh |-> -1, fh |-> w[5], c |-> w[6], p |-> w[1], layout |-> ""] >>
Rs == [h |-> w[2], p |-> -1]
Sh == <<NC, NC>>
Bump == [Spec2 EXCEPT ![1].c = Spec2[1].c + 1]
DesignOK == /\ TensorBits(Spec2, Rs, Sh, Fib(e)) = RootBits(Rs) + SubBits(Spec2, Sh, Fib(e), 1, 0) + FillI(Spec2[1].rh) + FillI(Spec2[2].rh)
            /\ TensorBits(Bump, Rs, Sh, Fib(e)) >= TensorBits(Spec2, Rs, Sh, Fib(e))
=============================================================================
