------------------------------- MODULE FTCost -------------------------------
(***************************************************************************)
(* Intersection and merge cost models (C19).                               *)
(*  - a two-operand intersection of consecutive fiber pairs <<A_j, B_j>>:  *)
(*    two-finger cost  = comparison steps of the two-finger merge until    *)
(*                       either side is exhausted, summed over the fibers  *)
(*    skip-ahead cost  = maximal same-side runs + matches, per fiber       *)
(*    leader-follower  = elements the (leader) operand presented           *)
(*    none of them depends on how the trace is batched; no comparison      *)
(*    spans two fibers (the sum over fibers says exactly that)             *)
(*  - swap count of a merge with a given radix and next-element latency    *)
(***************************************************************************)
EXTENDS FTCoiter

TFSteps(PA, PB) == TwoFinger("and", PA, PB).steps
\* skip-ahead: walk the two-finger merge, count a step when it is a match or when the advancing side changes
RECURSIVE SkipRun(_, _, _, _, _, _)
SkipRun(PA, PB, ia, ib, curr, n) ==
    IF ia > Len(PA) \/ ib > Len(PB) THEN n
    ELSE IF PA[ia] = PB[ib] THEN SkipRun(PA, PB, ia + 1, ib + 1, "none", n + 1)
    ELSE IF PA[ia] < PB[ib] THEN SkipRun(PA, PB, ia + 1, ib, "a", n + (IF curr # "a" THEN 1 ELSE 0))
    ELSE SkipRun(PA, PB, ia, ib + 1, "b", n + (IF curr # "b" THEN 1 ELSE 0))
SkipSteps(PA, PB) == SkipRun(PA, PB, 1, 1, "none", 0)
SumOver(pairs, F(_, _)) == SumSeq([j \in 1..Len(pairs) |-> F(pairs[j][1], pairs[j][2])])

(***************************************************************************)
(* Swap count (compute.py).  lists: sequences of coordinates (ascending).  *)
(* A merge round groups `radix` lists; with a finite next-element latency  *)
(* each group costs latency * (#lists + #elements); with unbounded latency *)
(* the cost is the comparison count of the incremental insertion merge.    *)
(***************************************************************************)
RECURSIVE Flatten2(_)
Flatten2(ls) == IF ls = <<>> THEN <<>> ELSE Head(ls) \o Flatten2(Tail(ls))
SortedSeq(s) == SetToSortedSeq(SeqToSet(s))           \* coordinates inside one merge are distinct per list; duplicates across lists keep one each below
RECURSIVE InsertSorted(_, _)
InsertSorted(s, x) == IF s = <<>> THEN <<x>> ELSE IF x <= Head(s) THEN <<x>> \o s ELSE <<Head(s)>> \o InsertSorted(Tail(s), x)
RECURSIVE SortAll(_)
SortAll(s) == IF s = <<>> THEN <<>> ELSE InsertSorted(SortAll(Tail(s)), Head(s))

\* ---- unbounded latency: the head list keeps <<coordinate, list index>> ordered; the merge takes the SMALLEST coordinate first
\* (the code negates coordinates and pops from the end); inserting costs (number of head entries that stay before the new one) ...
\* transcription of compute.py:_merge with head kept ascending in the negated order
Neg(x) == <<0 - x[1], x[2]>>
TupLeq(a, b) == a[1] < b[1] \/ (a[1] = b[1] /\ a[2] <= b[2])
BisectRight(head, e) == Cardinality({k \in 1..Len(head) : TupLeq(head[k], e)})
InsAtPos(s, j, x) == SubSeq(s, 1, j) \o <<x>> \o SubSeq(s, j + 1, Len(s))
RECURSIVE SeedHead(_, _, _, _, _)
\* rest[i]: remaining (negated, ascending) coordinates of list i
SeedHead(rest, i, head, cmp, n) ==
    IF i > n THEN [rest |-> rest, head |-> head, cmp |-> cmp]
    ELSE LET l == rest[i]
             e == <<l[Len(l)], i - 1>>
             j == BisectRight(head, e)
         IN SeedHead([rest EXCEPT ![i] = SubSeq(l, 1, Len(l) - 1)], i + 1, InsAtPos(head, j, e), cmp + Len(head) - j + 1, n)
RECURSIVE Drain(_, _, _, _)
Drain(rest, head, cmp, merged) ==
    IF head = <<>> THEN [cmp |-> cmp, merged |-> merged]
    ELSE LET e == head[Len(head)]
             h1 == SubSeq(head, 1, Len(head) - 1)
             i == e[2] + 1
             l == rest[i]
         IN IF l = <<>> THEN Drain(rest, h1, cmp, Append(merged, e[1]))
            ELSE LET nw == <<l[Len(l)], e[2]>>
                     j == BisectRight(h1, nw)
                 IN Drain([rest EXCEPT ![i] = SubSeq(l, 1, Len(l) - 1)], InsAtPos(h1, j, nw), cmp + Len(h1) - j + 1, Append(merged, e[1]))
\* lists given as NEGATED ascending sequences; result merged also negated ascending
MergeN(lists) == LET s == SeedHead(lists, 1, <<>>, 0, Len(lists))
                     d == Drain(s.rest, s.head, s.cmp, <<>>)
                 IN [cost |-> d.cmp, merged |-> SortAll(d.merged)]
MergeL(lists, lat) == LET m == SortAll(Flatten2(lists)) IN [cost |-> lat * (Len(lists) + Len(m)), merged |-> m]
MergeGroup(lists, lat) == IF lat = -1 THEN MergeN(lists) ELSE MergeL(lists, lat)

RECURSIVE Rounds(_, _, _, _)
RECURSIVE GroupsOf(_, _, _, _, _, _)
GroupsOf(lists, radix, lat, k, acc, cost) ==
    IF k > Len(lists) THEN [lists |-> acc, cost |-> cost]
    ELSE LET g == SubSeq(lists, k, Min(k + radix - 1, Len(lists)))
             m == MergeGroup(g, lat)
         IN GroupsOf(lists, radix, lat, k + radix, Append(acc, m.merged), cost + m.cost)
Rounds(lists, radix, lat, cost) ==
    IF Len(lists) <= 1 THEN cost
    ELSE LET r == Min(radix, Len(lists))
             g == GroupsOf(lists, r, lat, 1, <<>>, 0)
         IN Rounds(g.lists, r, lat, cost + g.cost)
\* lists: ascending coordinate sequences (the coordinates of the lower fibers); lat = -1 for "N"
SwapsOf(lists, radix, lat) == Rounds([k \in 1..Len(lists) |-> SortAll([q \in 1..Len(lists[k]) |-> 0 - lists[k][q]])], radix, lat, 0)
=============================================================================
