----------------------------- MODULE SplitTrace -----------------------------
(***************************************************************************)
(* Trace validation for C08.  One log line = one split call; `units` lists, *)
(* for every fiber that was split (the fiber itself, or every fiber at the  *)
(* split depth of a tensor), the original elements / active range and the   *)
(* resulting upper level with its lower fibers.                             *)
(***************************************************************************)
EXTENDS FTSplit, Json, IOUtils
Log == ndJsonDeserialize(IOEnv.TRACE_FILE)
VARIABLES i, done
vars == <<i, done>>
RECURSIVE Abs(_)
Abs(p) == IF p.k = "F" THEN Fib([k \in 1..Len(p.e) |-> <<p.e[k][1], Abs(p.e[k][2])>>])
          ELSE IF p.k = "L" THEN Leaf(p.v) ELSE [k |-> "X"]

PartsOf(B, U, els) ==
    CASE B.op = "uniform" -> UniformParts(B.step, IF Len(U.e) = 0 THEN 0 ELSE U.e[Len(U.e)][1], B.pre)
      [] B.op = "nonuniform" -> NonUniformParts(B.splits)
      [] B.op = "equal" -> EqualParts(B.step, els, U.act[1], U.act[2])
      [] B.op = "unequal" -> UnEqualParts(B.sizes, els, U.act[1], U.act[2])
      \* division shorthands:  f / n = splitUniform(ceil(shape / n)) ;  f // n = splitEqual(ceil(#stored coordinates / n))
      [] B.op = "truediv" -> UniformParts((U.shape + B.n - 1) \div B.n, IF Len(U.e) = 0 THEN 0 ELSE U.e[Len(U.e)][1], 0)
      [] B.op = "floordiv" -> EqualParts((U.ncoords + B.n - 1) \div B.n, els, U.act[1], U.act[2])

\* lower element list as the spec sees it: <<absolute coordinate, abstract payload>>
LowerAbs(B, r) == [k \in 1..Len(r.e) |-> <<IF B.rel = 1 THEN r.e[k][1] + r.c ELSE r.e[k][1], Abs(r.e[k][2])>>]
AbsEls(s) == [k \in 1..Len(s) |-> <<s[k][1], Abs(s[k][2])>>]

JudgeUnit(B, U) ==
  LET e     == U.e
      els   == Present(e, B.dflt)
      lo    == U.act[1]  hi == U.act[2]
      parts == PartsOf(B, U, els)
      need  == Need(els, parts, B.pre, B.post, lo, hi)
      may   == May(els, parts, B.pre, B.post, lo, hi)
      got   == [k \in 1..Len(U.res) |-> U.res[k].c]
      isB(c) == \E j \in 1..Len(may) : may[j][1] = c
      partOf(c) == may[CHOOSE j \in 1..Len(may) : may[j][1] = c]
      asc   == \A k \in 1..(Len(got) - 1) : got[k] < got[k + 1]
      okU   == asc /\ (\A j \in 1..Len(need) : \E k \in 1..Len(got) : got[k] = need[j][1]) /\ (\A k \in 1..Len(got) : isB(got[k]))
  IN IF U.unsplit = 1 THEN <<"P:C08:deep-all-split">> ELSE
     Fails(<<
     <<"P:C08:upper-coords", okU>>,
     <<"P:C08:partition-members", okU => \A k \in 1..Len(got) :
            LET pt == partOf(got[k])
                lw == LowerAbs(B, U.res[k])
            IN /\ SelectSeq(lw, LAMBDA x : x[1] >= lo /\ x[1] < hi) = AbsEls(MemA(els, pt, B.pre, B.post, lo, hi))       \* exactly the active members, in order, payloads equal
               /\ \A x \in SeqToSet(lw) : x \in SeqToSet(AbsEls(Mem(els, pt, B.pre, B.post, lo, hi)))>>,               \* anything else is an inactive halo member
     <<"P:C08:active-clipped", (okU /\ B.rel = 0) => \A k \in 1..Len(got) : U.res[k].act = ActOf(partOf(got[k]), lo, hi)>>,
     \* with relative coordinates the active range is relative to the partition start as well
     <<"P:C08:active-clipped", (okU /\ B.rel = 1) => \A k \in 1..Len(got) :
            LET a == ActOf(partOf(got[k]), lo, hi) IN U.res[k].act = <<a[1] - got[k], a[2] - got[k]>> >>,
     <<"S:exact-upper", got = [j \in 1..Len(may) |-> may[j][1]]>> >>)

Judge(B) ==
  IF B.exc # "ok" THEN <<"P:C08:no-exception">>
  ELSE Concat([u \in 1..Len(B.units) |-> JudgeUnit(B, B.units[u])])
       \o Fails(<< <<"P:C08:deep-skeleton", B.skel_ok = 1>>,
                   <<"P:C08:operand-untouched", B.pre_t = B.post_t>> >>)

Init == i \in 1..Len(Log) /\ done = FALSE
Next == ~done /\ done' = TRUE /\ UNCHANGED i
        /\ LET f == Judge(Log[i]) IN PrintT(ToJson([tid |-> Log[i].tid, fails |-> [k \in 1..Len(f) |-> <<1, f[k]>>], n |-> Len(Log[i].units)]))
=============================================================================
