------------------------------ MODULE FTCodec -------------------------------
(***************************************************************************)
(* Compression-format codec (C20): decoding by the documented layout only. *)
(*   desc    : sequence of "U" | "C" | "B", one per rank                   *)
(*   shape   : dimension per rank (implicit positions / mask width)        *)
(*   coords  : per rank, the coordinate array  (C: coordinates, B: mask    *)
(*             bits, U: nothing)                                           *)
(*   pays    : per rank, the payload array (leaf: values; interior above   *)
(*             an explicit rank: cumulative child occupancies = segment    *)
(*             ends, cumulative within the fiber; above an implicit rank:  *)
(*             nothing)                                                    *)
(*   rootp   : payloads_root (number of elements of the first fiber when   *)
(*             the first rank is explicit)                                 *)
(* A decoder state is [c, p] = read cursors per rank.                      *)
(***************************************************************************)
EXTENDS FTCore

Explicit(f) == f \in {"C", "B"}

Ones(bits) == SelectSeq([k \in 1..Len(bits) |-> k - 1], LAMBDA c : bits[c + 1] = 1)

\* elements (coordinates) of the fiber that starts at the cursors, and the cursors after its coordinates
ElemsOf(desc, shape, coords, d, n, cur) ==
    CASE desc[d] = "U" -> [k \in 1..shape[d] |-> k - 1]
      [] desc[d] = "C" -> SubSeq(coords[d], cur.c[d] + 1, cur.c[d] + n)
      [] desc[d] = "B" -> Ones(SubSeq(coords[d], cur.c[d] + 1, cur.c[d] + shape[d]))
AdvC(desc, shape, d, n, cur) == [cur EXCEPT !.c[d] = @ + (CASE desc[d] = "U" -> 0 [] desc[d] = "C" -> n [] desc[d] = "B" -> shape[d])]

RECURSIVE DecFiber(_, _, _, _, _, _, _, _, _)
RECURSIVE DecChildren(_, _, _, _, _, _, _, _, _, _, _, _)
\* returns [content |-> set of <<point, value>>, cur |-> cursors, ok |-> arrays long enough]
DecFiber(desc, shape, coords, pays, d, n, prefix, cur, dflt) ==
    LET need == CASE desc[d] = "U" -> 0 [] desc[d] = "C" -> n [] desc[d] = "B" -> shape[d]
        okc  == cur.c[d] + need <= Len(coords[d])
    IN IF ~okc THEN [content |-> {}, cur |-> cur, ok |-> FALSE]
       ELSE
       LET es   == ElemsOf(desc, shape, coords, d, n, cur)
           cur1 == AdvC(desc, shape, d, n, cur)
           m    == Len(es)
       IN IF d = Len(desc)
          THEN IF cur1.p[d] + m > Len(pays[d]) THEN [content |-> {}, cur |-> cur1, ok |-> FALSE]
               ELSE [content |-> {x \in {<<Append(prefix, es[k]), pays[d][cur1.p[d] + k]>> : k \in 1..m} : x[2] # dflt},        \* an implicit position holding the tensor's default is an absent element
                     cur |-> [cur1 EXCEPT !.p[d] = @ + m], ok |-> TRUE]
          ELSE IF Explicit(desc[d + 1])
               THEN IF cur1.p[d] + m > Len(pays[d]) THEN [content |-> {}, cur |-> cur1, ok |-> FALSE]
                    ELSE LET occ == SubSeq(pays[d], cur1.p[d] + 1, cur1.p[d] + m)
                             cur2 == [cur1 EXCEPT !.p[d] = @ + m]
                         IN DecChildren(desc, shape, coords, pays, d, es, occ, 1, prefix, cur2, {}, dflt)
               ELSE DecChildren(desc, shape, coords, pays, d, es, <<>>, 1, prefix, cur1, {}, dflt)
DecChildren(desc, shape, coords, pays, d, es, occ, k, prefix, cur, acc, dflt) ==
    IF k > Len(es) THEN [content |-> acc, cur |-> cur, ok |-> TRUE]
    ELSE LET n == IF occ = <<>> THEN 0 ELSE occ[k] - (IF k = 1 THEN 0 ELSE occ[k - 1])
             r == DecFiber(desc, shape, coords, pays, d + 1, n, Append(prefix, es[k]), cur, dflt)
         IN IF ~r.ok \/ n < 0 THEN [content |-> acc, cur |-> cur, ok |-> FALSE]
            ELSE DecChildren(desc, shape, coords, pays, d, es, occ, k + 1, prefix, r.cur, acc \cup r.content, dflt)

Decode(desc, shape, coords, pays, rootp, dflt) ==
    LET n0 == IF Explicit(desc[1]) THEN (IF Len(rootp) >= 1 THEN rootp[1] ELSE -1) ELSE 0
        z  == [c |-> [k \in 1..Len(desc) |-> 0], p |-> [k \in 1..Len(desc) |-> 0]]
    IN IF n0 < 0 THEN [content |-> {}, cur |-> z, ok |-> FALSE] ELSE DecFiber(desc, shape, coords, pays, 1, n0, <<>>, z, dflt)

(***************************************************************************)
(* The encoder the layout documents (used at design level: Decode o Encode *)
(* = identity on content).  tree: abstract fiber; returns the arrays.      *)
(***************************************************************************)
RECURSIVE EncFiber(_, _, _, _, _, _)
RECURSIVE EncKids(_, _, _, _, _, _, _, _)
\* arr = [coords |-> per-rank seqs, pays |-> per-rank seqs]; returns [arr, n] with n = number of elements of this fiber
EncFiber(desc, shape, p, d, dflt, arr) ==
    LET pe == Present(p.e, dflt)
        es == IF desc[d] = "U" THEN [k \in 1..shape[d] |-> k - 1] ELSE CoordsOf(pe)
        ca == CASE desc[d] = "U" -> <<>> [] desc[d] = "C" -> CoordsOf(pe)
                [] desc[d] = "B" -> [k \in 1..shape[d] |-> IF Has(pe, k - 1) THEN 1 ELSE 0]
        arr1 == [arr EXCEPT !.coords[d] = @ \o ca]
    IN IF d = Len(desc)
       THEN [arr |-> [arr1 EXCEPT !.pays[d] = @ \o [k \in 1..Len(es) |-> IF Has(p.e, es[k]) THEN Get(p.e, es[k]).v ELSE dflt]], n |-> Len(es)]
       ELSE LET r == EncKids(desc, shape, p, d, dflt, es, 1, [arr |-> arr1, occ |-> <<>>, tot |-> 0])
            IN [arr |-> IF Explicit(desc[d + 1]) THEN [r.arr EXCEPT !.pays[d] = SubSeq(@, 1, Len(arr1.pays[d])) \o r.occ \o SubSeq(@, Len(arr1.pays[d]) + 1, Len(@))] ELSE r.arr,
                n |-> Len(es)]
EncKids(desc, shape, p, d, dflt, es, k, st) ==
    IF k > Len(es) THEN st
    ELSE LET child == IF Has(p.e, es[k]) /\ ~IsEmptyP(Get(p.e, es[k]), dflt) THEN Get(p.e, es[k]) ELSE Fib(<<>>)
             r == EncFiber(desc, shape, child, d + 1, dflt, st.arr)
         IN EncKids(desc, shape, p, d, dflt, es, k + 1, [arr |-> r.arr, occ |-> Append(st.occ, st.tot + r.n), tot |-> st.tot + r.n])
Encode(desc, shape, tree, dflt) ==
    LET z == [coords |-> [k \in 1..Len(desc) |-> <<>>], pays |-> [k \in 1..Len(desc) |-> <<>>]]
        r == EncFiber(desc, shape, tree, 1, dflt, z)
    IN [coords |-> r.arr.coords, pays |-> r.arr.pays, rootp |-> IF Explicit(desc[1]) THEN <<r.n>> ELSE <<>>]

\* first stored coordinate not below the query (C lookup); -1 = none
LookupC(cs, q) == IF \E k \in 1..Len(cs) : cs[k] >= q THEN (CHOOSE k \in 1..Len(cs) : cs[k] >= q /\ \A j \in 1..(k - 1) : cs[j] < q) - 1 ELSE -1
CeilDiv(a, b) == (a + b - 1) \div b
=============================================================================
