------------------------------ MODULE FTArith -------------------------------
(***************************************************************************)
(* Arithmetic on boxes / elements / fibers agrees with arithmetic on the   *)
(* values (C11).  Values are exact rationals <<num, den>> (den > 0, lowest *)
(* terms); the executor only uses operands whose results are exactly       *)
(* representable, so float results can be compared exactly.                *)
(***************************************************************************)
EXTENDS FTCore, Bitwise

Abs1(x) == IF x < 0 THEN -x ELSE x
RECURSIVE GCD(_, _)
GCD(a, b) == IF b = 0 THEN a ELSE GCD(b, a % b)
Norm(n, d) == LET s == IF d < 0 THEN -1 ELSE 1
                  g == GCD(Abs1(n), Abs1(d))
              IN IF n = 0 THEN <<0, 1>> ELSE <<(s * n) \div g, (s * d) \div g>>
RAdd(x, y) == Norm(x[1] * y[2] + y[1] * x[2], x[2] * y[2])
RSub(x, y) == Norm(x[1] * y[2] - y[1] * x[2], x[2] * y[2])
RMul(x, y) == Norm(x[1] * y[1], x[2] * y[2])
RDiv(x, y) == Norm(x[1] * y[2], x[2] * y[1])
\* floor of a rational with positive denominator
Floor(q) == q[1] \div q[2]
RFloorDiv(x, y) == <<Floor(RDiv(x, y)), 1>>
RLt(x, y) == x[1] * y[2] < y[1] * x[2]
RECURSIVE Pow2(_)
Pow2(k) == IF k = 0 THEN 1 ELSE 2 * Pow2(k - 1)

\* comparisons over the extended values: <<0,0>> is NaN (unordered: every comparison but # is false), <<1,0>> / <<-1,0>> are +inf / -inf
IsNaN(x) == x[2] = 0 /\ x[1] = 0
XEq(x, y) == ~IsNaN(x) /\ ~IsNaN(y) /\ x = y
XLt(x, y) == IF IsNaN(x) \/ IsNaN(y) \/ x = y THEN FALSE
             ELSE IF x[2] = 0 THEN x[1] < 0                 \* -inf is below everything else, +inf below nothing
             ELSE IF y[2] = 0 THEN y[1] > 0
             ELSE RLt(x, y)
\* value of  x <op> y ; booleans are 0/1 rationals
B2R(b) == IF b THEN <<1, 1>> ELSE <<0, 1>>
OpVal(op, x, y) ==
  CASE op = "add" -> RAdd(x, y) [] op = "sub" -> RSub(x, y) [] op = "mul" -> RMul(x, y)
    [] op = "truediv" -> RDiv(x, y) [] op = "floordiv" -> RFloorDiv(x, y)
    [] op = "lshift" -> <<x[1] * Pow2(y[1]), 1>>
    [] op = "and" -> <<x[1] & y[1], 1>> [] op = "or" -> <<x[1] | y[1], 1>>
    [] op = "eq" -> B2R(XEq(x, y)) [] op = "ne" -> B2R(~XEq(x, y))
    [] op = "lt" -> B2R(XLt(x, y)) [] op = "le" -> B2R(XLt(x, y) \/ XEq(x, y))
    [] op = "gt" -> B2R(XLt(y, x)) [] op = "ge" -> B2R(XLt(y, x) \/ XEq(x, y))
    [] op = "ilshift" -> y                       \* <<= replaces the value

\* ---- fibers (integer values): content of the results ----
ValAt(e, c, d) == IF Has(e, c) THEN Get(e, c).v ELSE d
\* d: the fibers' leaf default (an absent coordinate reads as d; an element holding d is empty)
FAddC(a, b, d)    == {x \in {<<c, ValAt(a, c, d) + ValAt(b, c, d)>> : c \in CoordSet(Present(a, d)) \cup CoordSet(Present(b, d))} : x[2] # d}
FMulC(a, b, d)    == {x \in {<<c, ValAt(a, c, d) * ValAt(b, c, d)>> : c \in CoordSet(Present(a, d)) \cap CoordSet(Present(b, d))} : x[2] # d}
FAddSC(a, s, shape, d) == {x \in {<<c, ValAt(a, c, d) + s>> : c \in 0..(shape - 1)} : x[2] # d}
FMulSC(a, s, d)   == {x \in {<<c, ValAt(a, c, d) * s>> : c \in CoordSet(Present(a, d))} : x[2] # d}
\* content of a one-level element list as <<coordinate, value>> pairs
C1(e, d) == {<<e[i][1], e[i][2].v>> : i \in {j \in 1..Len(e) : e[j][2].v # d}}
=============================================================================
