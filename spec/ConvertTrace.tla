---------------------------- MODULE ConvertTrace ----------------------------
(* trace validation for C13 *)
EXTENDS FTConvert, Json, IOUtils
Log == ndJsonDeserialize(IOEnv.TRACE_FILE)
VARIABLES i, done
vars == <<i, done>>
RECURSIVE Abs(_)
Abs(p) == IF p.k = "F" THEN Fib([k \in 1..Len(p.e) |-> <<p.e[k][1], Abs(p.e[k][2])>>])
          ELSE IF p.k = "L" THEN Leaf(p.v) ELSE [k |-> "X"]

JudgeNest(B) ==
  LET t == Abs(B.tree) IN
  Fails(<<
    <<"P:C13:from-nest-content", NoForeign(B.tree) /\ Content(t, B.d) = NestContent(B.nest, B.d, B.depth)>>,
    <<"P:C13:from-nest-shape", B.shape = Dims(B.nest, B.depth)>>,
    <<"P:C13:no-explicit-default", NoForeign(B.tree) => CanonicalT(t, B.d)>>,
    <<IF NestContent(B.nest, B.d, B.depth) = {} THEN "P:C13:all-default-nest" ELSE "P:C13:uncompress-roundtrip", B.unc_exc = "ok" /\ B.unc_s = B.nest_s>>,     \* compared as canonical JSON text: the result may have any shape
    <<"S:tree-conform", NoForeign(B.tree) => t = FromNest(B.nest, B.d, B.depth)>> >>)

JudgeRoundTrip(B) ==     \* dict / YAML round trips: equal content, ids, shape, name; equality operator agrees
  Fails(<<
    <<IF B.via = "dict" THEN "P:C13:dict-roundtrip" ELSE "P:C13:yaml-roundtrip",
        B.load_exc = "ok" /\ NoForeign(B.back) /\ Content(Abs(B.back), B.d) = Content(Abs(B.orig), B.d) /\ B.eq = 1>>,
    <<"P:C13:yaml-attrs", (B.load_exc = "ok" /\ B.istensor = 1) => (B.ids_back = B.ids /\ B.shape_back = B.shape /\ B.name_back = B.name)>>,
    <<"P:C13:rank0", B.rank0 = 1 => (B.load_exc = "ok" /\ B.val_back = B.val)>> >>)

JudgeRandom(B) ==
  LET t == Abs(B.t1) IN
  Fails(<<
    <<"P:C13:random-reproducible", B.t1 = B.t2>>,
    <<"P:C13:random-in-shape", NoForeign(B.t1) /\ \A x \in Content(t, 0) : (Len(x[1]) = Len(B.shape) /\ \A k \in 1..Len(x[1]) : x[1][k] >= 0 /\ x[1][k] < B.shape[k])
                                                                        /\ x[2] >= 1 /\ x[2] <= B.interval>>,
    <<"P:C13:random-full", B.dense = 1 => Cardinality(Content(t, 0)) = B.volume>> >>)

Judge(B) == IF B.exc # "ok" THEN <<"P:C13:no-exception">>
            ELSE CASE B.kind = "nest" -> JudgeNest(B) [] B.kind = "roundtrip" -> JudgeRoundTrip(B) [] B.kind = "random" -> JudgeRandom(B)
Init == i \in 1..Len(Log) /\ done = FALSE
Next == ~done /\ done' = TRUE /\ UNCHANGED i
        /\ LET f == Judge(Log[i]) IN PrintT(ToJson([tid |-> Log[i].tid, fails |-> [k \in 1..Len(f) |-> <<1, f[k]>>], n |-> 1]))
=============================================================================
