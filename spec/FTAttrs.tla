------------------------------ MODULE FTAttrs -------------------------------
(***************************************************************************)
(* Rank ids, shapes, defaults, formats, mutability and active ranges       *)
(* follow the data (C14).                                                  *)
(* A rank id is a sequence of component names (one component for an        *)
(* ordinary rank, several for a flattened one); a shape entry likewise is  *)
(* a sequence of integers.  Results are compared in a canonical text form  *)
(* ("K" , ["M","N"] ; 4 , (4,5) , (4,(5,6))) so that any shape of answer   *)
(* from the implementation can be judged.                                  *)
(***************************************************************************)
EXTENDS FTCore

RECURSIVE Join(_, _)
Join(ss, sep) == IF ss = <<>> THEN "" ELSE IF Len(ss) = 1 THEN ss[1] ELSE ss[1] \o sep \o Join(Tail(ss), sep)
Q(s) == "\"" \o s \o "\""
IdText(comps) == IF Len(comps) = 1 THEN Q(comps[1]) ELSE "[" \o Join([k \in 1..Len(comps) |-> Q(comps[k])], ",") \o "]"
IdsText(ids) == [k \in 1..Len(ids) |-> IdText(ids[k])]
RECURSIVE PairText(_)
PairText(ns) == IF Len(ns) = 1 THEN ToString(ns[1]) ELSE "(" \o ToString(ns[1]) \o "," \o PairText(Tail(ns)) \o ")"
TupleText(ns) == IF Len(ns) = 1 THEN ToString(ns[1]) ELSE "(" \o Join([k \in 1..Len(ns) |-> ToString(ns[k])], ",") \o ")"
RECURSIVE Prod(_)
Prod(ns) == IF ns = <<>> THEN 1 ELSE Head(ns) * Prod(Tail(ns))
RECURSIVE ConcatS(_)
ConcatS(ss) == IF ss = <<>> THEN <<>> ELSE Head(ss) \o ConcatS(Tail(ss))

\* ---- rank ids ----
SplitIds(ids, d) == SubSeq(ids, 1, d) \o << <<ids[d + 1][1] \o ".1">>, <<ids[d + 1][1] \o ".0">> >> \o SubSeq(ids, d + 2, Len(ids))
FlattenIds(ids, d, L) == SubSeq(ids, 1, d) \o <<ConcatS(SubSeq(ids, d + 1, d + L + 1))>> \o SubSeq(ids, d + L + 2, Len(ids))
PermuteIds(ids, g) == [k \in 1..Len(ids) |-> ids[g[k]]]
SwapG(n, d) == [k \in 1..n |-> IF k = d + 1 THEN d + 2 ELSE IF k = d + 2 THEN d + 1 ELSE k]

\* ---- shapes (text per rank); sh: sequence of integers (operand ranks are unflattened) ----
ShText(sh) == [k \in 1..Len(sh) |-> ToString(sh[k])]
SplitShape(sh, d) == ShText(SubSeq(sh, 1, d + 1) \o <<sh[d + 1]>> \o SubSeq(sh, d + 2, Len(sh)))
FlattenShape(sh, d, L, style) ==
    LET part == SubSeq(sh, d + 1, d + L + 1)
        txt == CASE style = "tuple" -> TupleText(part) [] style = "pair" -> PairText(part)
                 [] style = "absolute" -> ToString(part[Len(part)]) [] style = "relative" -> ToString(part[1])
                 [] style = "linear" -> ToString(Prod(part))
    IN ShText(SubSeq(sh, 1, d)) \o <<txt>> \o ShText(SubSeq(sh, d + L + 2, Len(sh)))
PermuteShape(sh, g) == ShText([k \in 1..Len(sh) |-> sh[g[k]]])
\* formats: the ranks of a split inherit the format of the rank they come from, a flattened rank is compressed, the others keep theirs
SplitFmts(f, d) == SubSeq(f, 1, d + 1) \o <<f[d + 1]>> \o SubSeq(f, d + 2, Len(f))
FlattenFmts(f, d, L) == SubSeq(f, 1, d) \o <<"C">> \o SubSeq(f, d + L + 2, Len(f))
=============================================================================
