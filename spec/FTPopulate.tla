----------------------------- MODULE FTPopulate -----------------------------
(***************************************************************************)
(* The populate coroutine  `for c, (zref, aval) in z << a:`                *)
(*                                                                         *)
(* A program is <<z0, a, script>>: the loop body is modelled, as the       *)
(* property states, by a choice for every offered reference:               *)
(*   leaf reference     : "leave" | "assign" v | "accum" v | "zero"        *)
(*   sub-fiber reference: "leave" | "descend"  (a nested populate loop     *)
(*                        over <<z[c], a[c]>>)                             *)
(* script: sequence of [p |-> path, ch |-> choice, v |-> value]; a path    *)
(* without entry is left alone.                                            *)
(*                                                                         *)
(* PopFiber is the operational definition (what iterators.py does:         *)
(* insert at the bisect position, body, remove a created element that      *)
(* stayed at the default / a created sub-fiber that stayed without          *)
(* elements).  Final / NoResidue / Outside are the declarative statement.  *)
(***************************************************************************)
EXTENDS FTCore

Choice(script, p) == IF \E k \in 1..Len(script) : script[k].p = p
                     THEN script[CHOOSE k \in 1..Len(script) : script[k].p = p]
                     ELSE [p |-> p, ch |-> "leave", v |-> 0]

NewVal(ch, cur, dz) == CASE ch.ch = "assign" -> ch.v [] ch.ch = "accum" -> cur + ch.v [] ch.ch = "zero" -> dz [] OTHER -> cur

\* what the source presents at one level: non-empty elements (compressed rank)
Offered(a, da) == Present(a.e, da)

RECURSIVE PopFiber(_, _, _, _, _, _, _)
RECURSIVE PopElems(_, _, _, _, _, _, _, _)
\* fold over the offered elements of a, left to right; z: current destination fiber
PopElems(z, offs, k, script, path, lvl, dz, da) ==
  IF k > Len(offs) THEN z
  ELSE LET c   == offs[k][1]
           pa  == offs[k][2]
           p   == Append(path, c)
           ch  == Choice(script, p)
           ex  == Has(z.e, c)
           z1  == IF lvl = 1
                  THEN LET cur == IF ex THEN Get(z.e, c).v ELSE dz
                           new == NewVal(ch, cur, dz)
                       IN  IF new = dz THEN Fib(Del(z.e, c))            \* left at / set to the default: no element stays
                           ELSE Fib(Put(z.e, c, Leaf(new)))
                  ELSE LET sub  == IF ex THEN Get(z.e, c) ELSE Fib(<<>>)
                           sub1 == IF ch.ch = "descend" THEN PopFiber(sub, pa, script, p, lvl - 1, dz, da) ELSE sub
                       IN  IF ~ex /\ Len(sub1.e) = 0 THEN z                \* created here and still without elements: removed
                           ELSE Fib(Put(z.e, c, sub1))
       IN PopElems(z1, offs, k + 1, script, path, lvl, dz, da)
PopFiber(z, a, script, path, lvl, dz, da) == PopElems(z, Offered(a, da), 1, script, path, lvl, dz, da)

\* offered paths in order (depth first: an interior offer is followed by the offers of its nested loop when descended)
RECURSIVE Offers(_, _, _, _, _)
RECURSIVE OffersFrom(_, _, _, _, _, _)
OffersFrom(offs, k, script, path, lvl, da) ==
  IF k > Len(offs) THEN <<>>
  ELSE LET p == Append(path, offs[k][1])
       IN <<p>> \o (IF lvl > 1 /\ Choice(script, p).ch = "descend" THEN Offers(offs[k][2], script, p, lvl - 1, da) ELSE <<>>)
          \o OffersFrom(offs, k + 1, script, path, lvl, da)
Offers(a, script, path, lvl, da) == OffersFrom(Offered(a, da), 1, script, path, lvl, da)

(***************************************************************************)
(* Declarative statement (map level)                                       *)
(***************************************************************************)
MapGet(m, pt, dz) == IF \E x \in m : x[1] = pt THEN (CHOOSE x \in m : x[1] = pt)[2] ELSE dz
IsPrefix(p, q) == Len(p) <= Len(q) /\ SubSeq(q, 1, Len(p)) = p

\* leaf offers of a program (paths of full length)
LeafOffers(a, script, depth, da) == {p \in SeqToSet(Offers(a, script, <<>>, depth, da)) : Len(p) = depth}
FinalContent(z0, a, script, depth, dz, da) ==
  LET m0 == Content(z0, dz)
      lo == LeafOffers(a, script, depth, da)
      wr == {<<p, NewVal(Choice(script, p), MapGet(m0, p, dz), dz)>> : p \in lo}
  IN {x \in m0 : x[1] \notin lo} \cup {x \in wr : x[2] # dz}

FinalOK(z0, z1, a, script, depth, dz, da) == Content(z1, dz) = FinalContent(z0, a, script, depth, dz, da)
\* an offered coordinate that z did not store before is stored afterwards only if something non-default lives under it
NoResidue(z0, z1, a, script, depth, dz, da) ==
  \A p \in SeqToSet(Offers(a, script, <<>>, depth, da)) :
      /\ (p \notin Stored(z0) /\ p \in Stored(z1)) => \E x \in Content(z1, dz) : IsPrefix(p, x[1])
      \* an offered leaf coordinate, new or not, holds no element when the body left it at / set it back to the default
      /\ (Len(p) = depth /\ p \in Stored(z1)) => \E x \in Content(z1, dz) : x[1] = p
\* stored parts of z that no offer reaches are identical afterwards (representation level)
Outside(z0, z1, a, script, depth, da) ==
  LET offs == SeqToSet(Offers(a, script, <<>>, depth, da))
  IN \A q \in Stored(z0) : (\A p \in offs : ~IsPrefix(p, q) /\ ~IsPrefix(q, p)) => AtPath(z1, q) = AtPath(z0, q)
=============================================================================
