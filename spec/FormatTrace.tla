---------------------------- MODULE FormatTrace -----------------------------
(* trace validation for C18: every footprint query answered by the implementation equals the sum over the projected tree *)
EXTENDS FTFormat, Json, IOUtils
Log == ndJsonDeserialize(IOEnv.TRACE_FILE)
VARIABLES i, done
vars == <<i, done>>
RECURSIVE Abs(_)
Abs(p) == IF p.k = "F" THEN Fib([k \in 1..Len(p.e) |-> <<p.e[k][1], Abs(p.e[k][2])>>])
          ELSE IF p.k = "L" THEN Leaf(p.v) ELSE [k |-> "X"]
Judge(B) ==
  LET root == Abs(B.pre.root)  sp == B.spec  sh == B.shapes  n == Len(sp)
      qokr(q, rt) == CASE q.q = "fiber" -> q.res = FiberAtBits(sp, sh, rt, q.pt)
                  [] q.q = "rank" -> q.res = RankBits(sp, sh, rt, q.r)
                  [] q.q = "root" -> q.res = RootBits(B.rootspec)
                  [] q.q = "tensor" -> q.res = TensorBits(sp, B.rootspec, sh, rt)
                  [] q.q = "subtree" -> q.res = SubTreeAt(sp, sh, rt, q.pt, 0)
                  [] OTHER -> TRUE
      \* the same Format object asked again after the tensor grew: the answers describe the tensor as it is NOW
      root2 == IF B.grown = 1 THEN Abs(B.pre2.root) ELSE root
      qok(q) == CASE q.q \in {"fiber", "rank", "root", "tensor", "subtree"} -> qokr(q, root)
                  [] q.q = "elem" -> q.res = FillI(sp[q.r].c) + FillI(sp[q.r].p)
                  [] q.q = "field" -> q.res = q.exp_default          \* getFormat / getLayout / get*Bits of an omitted field
                  [] OTHER -> TRUE
      name(q) == CASE q.q = "fiber" -> "P:C18:fiber" [] q.q = "rank" -> "P:C18:rank" [] q.q \in {"root", "tensor"} -> "P:C18:tensor"
                   [] q.q = "subtree" -> "P:C18:subtree" [] OTHER -> "P:C18:spec-defaults"
  IN IF B.exc # "ok" THEN <<"P:C18:no-exception">>
     ELSE Fails([k \in 1..Len(B.qs) |-> <<name(B.qs[k]), B.qs[k].exc = "ok" /\ qok(B.qs[k])>>]
                \o [k \in 1..Len(B.qs2) |-> <<name(B.qs2[k]), B.qs2[k].exc = "ok" /\ qokr(B.qs2[k], root2)>>]
                \o << <<"P:C18:observer-pure", B.post = B.pre>> >>)
Init == i \in 1..Len(Log) /\ done = FALSE
Next == ~done /\ done' = TRUE /\ UNCHANGED i
        /\ LET f == Judge(Log[i]) IN PrintT(ToJson([tid |-> Log[i].tid, fails |-> [k \in 1..Len(f) |-> <<k, f[k]>>], n |-> Len(Log[i].qs)]))
=============================================================================
