----------------------------- MODULE SuiteTrace -----------------------------
(***************************************************************************)
(* Trace validation of the REPOSITORY'S OWN TEST-SUITE (C01, C02, C10).    *)
(* harness/suite_trace.py (a pytest plugin, no source change) records one  *)
(* event per outermost public call on a Fiber / Tensor made by a test:     *)
(* the projected state of the receiver and of every fiber / tensor         *)
(* argument before and after the call, and of the result.  Each event is   *)
(* judged here:                                                            *)
(*   - a public call that starts from well-formed operands ends with       *)
(*     well-formed operands and a well-formed result (C01), and with       *)
(*     tensors whose rank lists mirror their tree (C02);                   *)
(*   - a call of the value-returning or read-only families leaves every    *)
(*     operand exactly as it was (C10).                                    *)
(* State clauses are reported only when the call BREAKS them (they held    *)
(* before the call).                                                       *)
(***************************************************************************)
EXTENDS FTStore, Json, IOUtils
Log == ndJsonDeserialize(IOEnv.TRACE_FILE)
VARIABLES i, done
vars == <<i, done>>

RECURSIVE DepthOf(_)
DepthOf(p) == IF p.k # "F" THEN 0 ELSE IF Len(p.e) = 0 THEN 1 ELSE 1 + DepthOf(p.e[1][2])

Clauses(ps, t) ==
  LET root == ps.root
      ok   == ps.rank0 = 0 /\ NoForeign(root)
      isT  == t = "T"
      d    == IF isT THEN Len(ps.ranks) ELSE DepthOf(root)
  IN IF ps.rank0 = 1 THEN <<>> ELSE
     << <<"boxed-interior", ok>>,
        <<"parallel-lists", ok => ParallelLists(root)>>,
        <<"sorted-unique",  ok => SortedUnique(root)>>,
        <<"uniform-depth",  ok => DepthIs(root, d)>>,
        <<"rank-mirror", (ok /\ isT) => \A r \in 1..Len(ps.ranks) : RankListOK(ps, r)>>,
        <<"owner",       (ok /\ isT) => OwnersOK(root, 0)>>,
        <<"chain",       (ok /\ isT) => ChainOK(ps)>>,
        <<"root-first",  (ok /\ isT) => RootFirst(ps)>> >>
Prop(c) == IF c \in {"boxed-interior", "parallel-lists", "sorted-unique", "uniform-depth"} THEN "P:C01:suite-" \o c ELSE "P:C02:suite-" \o c

NewReturning == {"splitUniform", "splitNonUniform", "splitEqual", "splitUnEqual", "splitUniformBelow", "splitNonUniformBelow", "splitEqualBelow", "splitUnEqualBelow",
                 "swizzleRanks", "swapRanks", "swapRanksBelow", "flattenRanks", "flattenRanksBelow", "unflattenRanks", "unflattenRanksBelow", "mergeRanks", "mergeRanksBelow",
                 "__add__", "__radd__", "__mul__", "__rmul__", "__deepcopy__", "__copy__"}
ReadOnly == {"getCoords", "getPayloads", "getShape", "getDepth", "getRankIds", "getRankAttrs", "getDefault", "getActive", "getRoot", "getName", "getColor", "isMutable",
             "isEmpty", "countValues", "maxCoord", "minCoord", "estimateShape", "getPosition", "lookup", "uncompress", "values", "getRange",
             "__eq__", "__ne__", "__len__", "__str__", "__repr__", "print", "dump", "fiber2dict", "tensor2dict", "dumpYAML",
             "iterOccupancy", "iterShape", "iterActive", "iterActiveShape", "iterRange", "iterRangeShape", "__iter__", "__reversed__", "__getitem__", "__contains__",
             "__and__", "__or__", "__xor__", "__sub__", "project", "prune", "unzip", "getSavedPos", "isLazy", "getOwner", "getFormat"}
Pure(ev) == ev.m \in NewReturning \/ ev.m \in ReadOnly \/ (ev.cls = "Tensor" /\ ev.m \in {"updateCoords", "updatePayloads"})

JudgeOp(ev, op) ==
  LET pre  == Fails(Clauses(op.pre, op.t))
      post == Fails(Clauses(op.post, op.t))
      broke == SelectSeq(post, LAMBDA c : \A k \in 1..Len(pre) : pre[k] # c)
  IN [k \in 1..Len(broke) |-> Prop(broke[k])]
     \o (IF Pure(ev) /\ ev.exc = "ok" /\ op.pre # op.post THEN <<"P:C10:suite-operand-unchanged">> ELSE <<>>)
RECURSIVE Cat(_)
Cat(ss) == IF ss = <<>> THEN <<>> ELSE Head(ss) \o Cat(Tail(ss))
Judge(ev) ==
  LET cleanpre == \A k \in 1..Len(ev.ops) : Fails(Clauses(ev.ops[k].pre, ev.ops[k].t)) = <<>>
      rf == IF ev.hasres = 1 /\ cleanpre THEN Fails(Clauses(ev.res, ev.rt)) ELSE <<>>
  IN Cat([k \in 1..Len(ev.ops) |-> JudgeOp(ev, ev.ops[k])]) \o [k \in 1..Len(rf) |-> Prop(rf[k]) \o "-result"]
Init == i \in 1..Len(Log) /\ done = FALSE
Next == ~done /\ done' = TRUE /\ UNCHANGED i
        /\ LET f == Judge(Log[i]) IN PrintT(ToJson([tid |-> Log[i].tid, fails |-> [k \in 1..Len(f) |-> <<1, f[k]>>], n |-> 1]))
=============================================================================
