------------------------------- MODULE MC_Pop -------------------------------
(***************************************************************************)
(* Design-level check and program generator for FTPopulate: for every      *)
(* destination, every source and EVERY loop-body script of the scope the   *)
(* operational coroutine result satisfies the declarative statement.       *)
(***************************************************************************)
EXTENDS FTPopulate, Json, SequencesExt
CONSTANTS NC, DEPTH, EMIT, MODULUS, REM, DZ, DA    \* DZ / DA: leaf defaults of destination and source;      \* emission samples the pairs with (Code(z0)*7 + Code(a)*13) % MODULUS = REM
VARIABLES z0, a, script, done
vars == <<z0, a, script, done>>

T == IF DEPTH = 1 THEN Trees1(NC, {0, 1}) ELSE Trees2(NC, {0, 1})
\* present paths of a (what can be offered)
RECURSIVE PPaths(_, _, _)
PPaths(f, path, lvl) == LET offs == Offered(f, DA)
                        IN UNION {{Append(path, offs[k][1])} \cup (IF lvl > 1 THEN PPaths(offs[k][2], Append(path, offs[k][1]), lvl - 1) ELSE {}) : k \in 1..Len(offs)}
LeafCh == {<<"leave", 0>>, <<"assign", 1>>, <<"accum", 1>>, <<"zero", 0>>}    \* "zero": set back to the destination default
IntCh  == {<<"leave", 0>>, <<"descend", 0>>}
Scripts(f) == LET ps == PPaths(f, <<>>, DEPTH)
                  fs == {g \in [ps -> LeafCh \cup IntCh] : \A p \in ps : IF Len(p) = DEPTH THEN g[p] \in LeafCh ELSE g[p] \in IntCh}
              IN {LET s == SetToSeq(ps) IN [k \in 1..Len(s) |-> [p |-> s[k], ch |-> g[s[k]][1], v |-> g[s[k]][2]]] : g \in fs}

RECURSIVE Code(_)
Code(p) == IF p.k = "L" THEN 1 + p.v ELSE 1 + SumSeq([k \in 1..Len(p.e) |-> (1 + p.e[k][1]) * 11 * Code(p.e[k][2])])
Selected == (Code(z0) * 7 + Code(a) * 13) % MODULUS = REM
Init == /\ z0 \in {Fib(e) : e \in T} /\ a \in {Fib(e) : e \in T} /\ Selected /\ script \in Scripts(a) /\ done = FALSE
Z1 == PopFiber(z0, a, script, <<>>, DEPTH, DZ, DA)
Emit == /\ EMIT /\ ~done /\ done' = TRUE /\ UNCHANGED <<z0, a, script>>
        /\ PrintT(ToJson([z0 |-> z0, a |-> a, script |-> script, depth |-> DEPTH, dz |-> DZ, da |-> DA]))
Next == Emit
DesignOK == /\ WF(Z1) /\ DepthIs(Z1, DEPTH)
            /\ FinalOK(z0, Z1, a, script, DEPTH, DZ, DA)
            /\ NoResidue(z0, Z1, a, script, DEPTH, DZ, DA)
            /\ Outside(z0, Z1, a, script, DEPTH, DA)
=============================================================================
