---------------------------- MODULE MC_Transform ----------------------------
(* design level: algebraic laws of the declarative transforms over every content set of the scope *)
EXTENDS FTTransform
CONSTANTS NC
VARIABLES C
vars == <<C>>
Pts3 == {<<<<a>>, <<b>>, <<c>>>> : a \in 0..(NC - 1), b \in 0..(NC - 1), c \in 0..(NC - 1)}
Val(p) == 1 + ((p[1][1] + p[3][1]) % 2)
Init == \E S \in SUBSET Pts3 : C = {<<p, Val(p)>> : p \in S}
Next == UNCHANGED vars
Perms == {<<1, 2, 3>>, <<1, 3, 2>>, <<2, 1, 3>>, <<2, 3, 1>>, <<3, 1, 2>>, <<3, 2, 1>>}
Shapes == <<NC, NC, NC>>
DesignOK ==
  /\ \A g \in Perms : SwizzleC(SwizzleC(C, g), Inverse(g)) = C                                  \* inverse permutation restores
  /\ \A d \in 0..1 : SwizzleC(SwizzleC(C, SwapGuide(3, d)), SwapGuide(3, d)) = C                 \* swap is an involution
  /\ \A d \in 0..1, st \in {"tuple", "linear"} : Injective(C, d, 1, st, Shapes)                  \* tuple / linear images never collide
  /\ Injective(C, 0, 2, "tuple", Shapes) /\ Injective(C, 0, 2, "linear", Shapes)
  /\ \A d \in 0..1 : {<<UnflattenPt(FlattenPt(x[1], d, 1, "tuple", Shapes), d, 1), x[2]>> : x \in C} = C     \* unflatten inverts flatten
  /\ {<<UnflattenPt(FlattenPt(x[1], 0, 2, "tuple", Shapes), 0, 2), x[2]>> : x \in C} = C
  /\ MergeC(C, 0, 1, "tuple", Shapes, "sum") = {<<FlattenPt(x[1], 0, 1, "tuple", Shapes), x[2]>> : x \in C}    \* merge without collisions = flatten
=============================================================================
