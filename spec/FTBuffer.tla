------------------------------ MODULE FTBuffer ------------------------------
(***************************************************************************)
(* Buffer traffic models (C17).                                            *)
(* A trace row is [stamp |-> <<..>>, coords |-> <<..>>, pos |-> n, w |-> 0/1]*)
(* (w = 1: write).  A binding gives: mask (which loop ranks are ranks of   *)
(* the tensor), epl (elements per line), ev (length of the stamp prefix    *)
(* that names the eviction window; 0 = root), shape (of the bound rank)    *)
(* and staged (TRUE when writes beyond the shape address the insertion     *)
(* staging area and are never written back).                               *)
(***************************************************************************)
EXTENDS FTCore

RECURSIVE LexLt(_, _)
LexLt(a, b) == IF a = <<>> \/ b = <<>> THEN FALSE ELSE Head(a) < Head(b) \/ (Head(a) = Head(b) /\ LexLt(Tail(a), Tail(b)))
\* stable merge by iteration stamp, reads first on ties
RECURSIVE Combine(_, _)
Combine(rd, wr) == IF rd = <<>> THEN wr ELSE IF wr = <<>> THEN rd
                   ELSE IF LexLt(Head(wr).stamp, Head(rd).stamp) THEN <<Head(wr)>> \o Combine(rd, Tail(wr))
                   ELSE <<Head(rd)>> \o Combine(Tail(rd), wr)
Compress(s, mask) == LET idx == SelectSeq([k \in 1..Len(s) |-> k], LAMBDA k : mask[k] = 1) IN [k \in 1..Len(idx) |-> s[idx[k]]]
LineOf(row, b) == LET p == Compress(row.coords, b.mask) IN SubSeq(p, 1, Len(p) - 1) \o <<(row.pos \div b.epl) * b.epl>>
WindowOf(row, b) == SubSeq(row.stamp, 1, b.ev)
Key(row, b) == <<LineOf(row, b), WindowOf(row, b)>>
WrittenBack(row, b) == row.w = 1 /\ (~b.staged \/ row.pos < b.shape)

\* ---- buffet, declarative ----
BuffetFills(tr, b) == Cardinality({k \in 1..Len(tr) : tr[k].w = 0 /\ \A j \in 1..(k - 1) : Key(tr[j], b) # Key(tr[k], b)})       \* first access of its (line, window) and a read
BuffetWBs(tr, b)   == Cardinality({Key(tr[k], b) : k \in {j \in 1..Len(tr) : WrittenBack(tr[j], b)}})

\* ---- buffet, operational: a line is kept while its next use lies in the same window, dropped (and drained if dirty) after its last use there ----
NextUse(tr, k, b) == IF \E j \in (k + 1)..Len(tr) : LineOf(tr[j], b) = LineOf(tr[k], b)
                     THEN CHOOSE j \in (k + 1)..Len(tr) : LineOf(tr[j], b) = LineOf(tr[k], b) /\ \A q \in (k + 1)..(j - 1) : LineOf(tr[q], b) # LineOf(tr[k], b)
                     ELSE 0
RECURSIVE BuffetRun(_, _, _, _)
\* st = [res |-> resident lines with dirty flag (set of <<line, dirty>>), fills, wbs]
BuffetRun(tr, b, k, st) ==
    IF k > Len(tr) THEN st
    ELSE LET ln   == LineOf(tr[k], b)
             isin == \E x \in st.res : x[1] = ln
             dirty0 == isin /\ <<ln, TRUE>> \in st.res
             wb   == WrittenBack(tr[k], b)
             nu   == NextUse(tr, k, b)
             keep == nu # 0 /\ WindowOf(tr[nu], b) = WindowOf(tr[k], b)
             fills1 == st.fills + (IF ~isin /\ tr[k].w = 0 THEN 1 ELSE 0)
             dirty == dirty0 \/ wb
             res0 == {x \in st.res : x[1] # ln}
         IN IF keep THEN BuffetRun(tr, b, k + 1, [res |-> res0 \cup {<<ln, dirty>>}, fills |-> fills1, wbs |-> st.wbs])
            ELSE BuffetRun(tr, b, k + 1, [res |-> res0, fills |-> fills1, wbs |-> st.wbs + (IF dirty THEN 1 ELSE 0)])
BuffetOp(tr, b) == BuffetRun(tr, b, 1, [res |-> {}, fills |-> 0, wbs |-> 0])

\* ---- cache, operational (traffic.py cacheTraffic callbacks): furthest-next-use replacement with bypass ----
\* A resident line is [ln, dirty, nu (index of its next access), pinned].  A miss on a read costs one fill, a miss on a write none
\* (write-allocate without fill).  A line that is never used again is not kept (dropped at its last use, drained if dirty).  A missing
\* line with a future use is kept if there is room, or if it belongs to the insertion staging area (pinned: never chosen as a victim,
\* may overflow the capacity), or if its next use comes no later than the furthest next use among the evictable residents - then that
\* furthest line is the victim (drained if dirty); otherwise the access bypasses the cache (a written-back write goes straight out).
\* cap is the capacity in lines.
RECURSIVE CacheEvict(_, _)
CacheEvict(st, cap) ==
    LET evictable == {x \in st.res : ~x.pinned} IN
    IF Cardinality(st.res) + 1 <= cap THEN st
    ELSE IF evictable = {} THEN [st EXCEPT !.over = @ + 1]
    ELSE LET far == CHOOSE x \in evictable : \A y \in evictable : y.nu <= x.nu
         IN CacheEvict([st EXCEPT !.res = @ \ {far}, !.wbs = @ + (IF far.dirty THEN 1 ELSE 0)], cap)
RECURSIVE CacheRun(_, _, _, _, _)
CacheRun(tr, b, cap, k, st) ==
    IF k > Len(tr) THEN st
    ELSE LET row  == tr[k]
             ln   == LineOf(row, b)
             isin == \E x \in st.res : x.ln = ln
             me   == CHOOSE x \in st.res : x.ln = ln
             wb   == WrittenBack(row, b)
             nu   == NextUse(tr, k, b)
             st1  == [st EXCEPT !.fills = @ + (IF ~isin /\ row.w = 0 THEN 1 ELSE 0)]
             pinnedNew == b.staged /\ row.pos >= b.shape
             evictable == {x \in st.res : ~x.pinned}
             far  == CHOOSE x \in evictable : \A y \in evictable : y.nu <= x.nu
         IN IF nu = 0
            THEN IF isin THEN CacheRun(tr, b, cap, k + 1, [st1 EXCEPT !.res = @ \ {me}, !.wbs = @ + (IF me.dirty \/ wb THEN 1 ELSE 0)])
                 ELSE CacheRun(tr, b, cap, k + 1, [st1 EXCEPT !.wbs = @ + (IF wb THEN 1 ELSE 0)])
            ELSE IF isin THEN CacheRun(tr, b, cap, k + 1, [st1 EXCEPT !.res = (@ \ {me}) \cup {[me EXCEPT !.nu = nu, !.dirty = @ \/ wb]}])
            ELSE LET tobuf == Cardinality(st.res) + 1 <= cap \/ pinnedNew \/ (evictable # {} /\ nu <= far.nu)
                 IN IF ~tobuf THEN CacheRun(tr, b, cap, k + 1, [st1 EXCEPT !.wbs = @ + (IF wb THEN 1 ELSE 0)])
                    ELSE LET st2 == CacheEvict(st1, cap)
                         IN CacheRun(tr, b, cap, k + 1, [st2 EXCEPT !.res = @ \cup {[ln |-> ln, dirty |-> wb, nu |-> nu, pinned |-> pinnedNew]}])
CacheOp(tr, b, cap) == CacheRun(tr, b, cap, 1, [res |-> {}, fills |-> 0, wbs |-> 0, over |-> 0])

\* ---- cache, declarative for read traces: the least number of fills any replacement schedule (keep / bypass / any victim) can achieve ----
SetMin(S) == CHOOSE x \in S : \A y \in S : x <= y
RECURSIVE OptFills(_, _, _, _, _)
OptFills(tr, b, cap, k, res) ==
    IF k > Len(tr) THEN 0
    ELSE LET ln == LineOf(tr[k], b) IN
         IF ln \in res THEN OptFills(tr, b, cap, k + 1, res)
         ELSE 1 + SetMin({OptFills(tr, b, cap, k + 1, res)}
                         \cup (IF Cardinality(res) + 1 <= cap THEN {OptFills(tr, b, cap, k + 1, res \cup {ln})} ELSE {})
                         \cup {OptFills(tr, b, cap, k + 1, (res \ {v}) \cup {ln}) : v \in res})

\* ---- filter: keep the rows of `inp` whose point occurs in `fil` (points compared on the input's ranks) ----
Filter(inp, fil) == SelectSeq(inp, LAMBDA r : \E k \in 1..Len(fil) : SubSeq(fil[k].coords, 1, Len(r.coords)) = r.coords)
DistinctLines(tr, b) == Cardinality({LineOf(tr[k], b) : k \in 1..Len(tr)})
=============================================================================
