---------------------------- MODULE MC_Traverse -----------------------------
(* design level: the operational iterRange loop (with any valid start position) equals the declarative slice *)
EXTENDS FTTraverse
CONSTANTS NC
VARIABLES e, lo, hi, haslo, hashi, sp
vars == <<e, lo, hi, haslo, hashi, sp>>
Init == /\ e \in Trees1(NC, {0, 1, 2}) /\ lo \in -1..(NC + 1) /\ hi \in -1..(NC + 1) /\ haslo \in {0, 1} /\ hashi \in {0, 1}
        /\ sp \in -1..(NC - 1) /\ ValidSP(e, sp, haslo, lo)
Next == UNCHANGED vars
DesignOK == IterRangeOp(e, 0, IF sp = -1 THEN 1 ELSE sp + 1, haslo, lo, hashi, hi, <<>>) = SliceIdx(e, 0, haslo, lo, hashi, hi)
=============================================================================
