------------------------------ MODULE MC_Attrs ------------------------------
(* design level: the attribute rules are closed under composition (split ; absolute flatten = identity on ids' components and shape;
   permutation ; inverse = identity; flatten keeps the number of components) *)
EXTENDS FTAttrs
VARIABLES sh, d
vars == <<sh, d>>
Ids == << <<"K">>, <<"M">>, <<"N">> >>
Init == sh \in [1..3 -> 2..4] /\ d \in 0..1
Next == UNCHANGED vars
Inv(g) == [i \in 1..Len(g) |-> CHOOSE j \in 1..Len(g) : g[j] = i]
Perms == {<<1, 2, 3>>, <<1, 3, 2>>, <<2, 1, 3>>, <<2, 3, 1>>, <<3, 1, 2>>, <<3, 2, 1>>}
DesignOK ==
    /\ \A g \in Perms : PermuteIds(PermuteIds(Ids, g), Inv(g)) = Ids /\ PermuteShape([k \in 1..3 |-> sh[g[k]]], Inv(g)) = ShText(sh)
    /\ Len(ConcatS(FlattenIds(Ids, d, 1))) = 3 /\ Len(FlattenIds(Ids, d, 1)) = 2
    /\ Len(SplitIds(Ids, d)) = 4 /\ Len(SplitShape(sh, d)) = 4
    /\ FlattenShape(sh, d, 1, "linear")[d + 1] = ToString(sh[d + 1] * sh[d + 2])
    /\ PermuteIds(Ids, SwapG(3, d)) = PermuteIds(PermuteIds(PermuteIds(Ids, SwapG(3, d)), SwapG(3, d)), SwapG(3, d))
=============================================================================
