----------------------------- MODULE MC_Buffer ------------------------------
(* design level: the operational buffet (keep a line while its next use is in the same window) charges exactly the declarative fills and
   write-backs, for every well-formed trace of the scope, every eviction window and line size; bounds between distinct lines and accesses *)
EXTENDS FTBuffer
CONSTANTS N, NL
VARIABLES tr, ev, epl
vars == <<tr, ev, epl>>
\* rows of a 2-rank loop nest: stamps (i, j) increasing, the traced tensor has only the inner rank (lines are reused across outer iterations)
Stamps == SetToSortedSeq({i * 10 + j : i \in 0..1, j \in 0..2})
Rows == [1..N -> [p : 0..(NL - 1), w : {0, 1}]]
Init == /\ \E f \in Rows : tr = [k \in 1..N |-> [stamp |-> <<Stamps[k] \div 10, Stamps[k] % 10>>, coords |-> <<Stamps[k] \div 10, f[k].p>>, pos |-> f[k].p, w |-> f[k].w]]
        /\ ev \in 0..2 /\ epl \in {1, 2}
Next == UNCHANGED vars
B == [mask |-> <<0, 1>>, epl |-> epl, ev |-> ev, shape |-> NL - 1, staged |-> TRUE]
DesignOK == LET o == BuffetOp(tr, B) IN
            /\ o.fills = BuffetFills(tr, B) /\ o.wbs = BuffetWBs(tr, B)
            /\ BuffetFills(tr, B) <= Len(tr)
            /\ (\A k \in 1..Len(tr) : tr[k].w = 0) => BuffetFills(tr, B) >= DistinctLines(tr, B)
=============================================================================
