INIT Init
NEXT Next
CONSTRAINT Done
CHECK_DEADLOCK FALSE
