----------------------------- MODULE MC_Kernel ------------------------------
(***************************************************************************)
(* design level: for every expression shape, every loop order and every    *)
(* operand content of the scope the loop-nest machine computes the dense   *)
(* result, and its counters obey the accounting identities.                *)
(***************************************************************************)
EXTENDS FTKernel
CONSTANTS NC, SHAPE           \* SHAPE: which expression
VARIABLES A, B, order
vars == <<A, B, order>>
C == 0..(NC - 1)
Pts(n) == IF n = 1 THEN {<<c>> : c \in C} ELSE {<<c, d>> : c \in C, d \in C}
Conts(n) == {{<<p, f[p]>> : p \in {q \in Pts(n) : f[q] # 0}} : f \in [Pts(n) -> {0, 1, 2}]}
Perms(s) == IF Len(s) = 1 THEN {s} ELSE IF Len(s) = 2 THEN {s, <<s[2], s[1]>>}
            ELSE {<<s[a], s[b], s[c]>> : a \in 1..3, b \in 1..3, c \in 1..3} \cap {t \in [1..3 -> SeqToSet(s)] : Cardinality({t[1], t[2], t[3]}) = 3}
\* expression shapes (operand ranks follow the loop order)
Sub(ix, ord) == SelectSeq(ord, LAMBDA v : v \in SeqToSet(ix))
ExprOf(ord) ==
    CASE SHAPE = "dot"    -> [out |-> <<>>, facs |-> <<[t |-> "A", ix |-> <<"k">>], [t |-> "B", ix |-> <<"k">>]>>]
      [] SHAPE = "elem"   -> [out |-> <<"m">>, facs |-> <<[t |-> "A", ix |-> <<"m">>], [t |-> "B", ix |-> <<"m">>]>>]
      [] SHAPE = "matvec" -> [out |-> <<"m">>, facs |-> <<[t |-> "A", ix |-> Sub(<<"m", "k">>, ord)], [t |-> "B", ix |-> <<"k">>]>>]
      [] SHAPE = "reduce" -> [out |-> <<"m">>, facs |-> <<[t |-> "A", ix |-> Sub(<<"m", "k">>, ord)]>>]
      [] SHAPE = "outer"  -> [out |-> Sub(<<"m", "n">>, ord), facs |-> <<[t |-> "A", ix |-> <<"m">>], [t |-> "B", ix |-> <<"n">>]>>]
AllVars == CASE SHAPE \in {"dot"} -> <<"k">> [] SHAPE = "elem" -> <<"m">> [] SHAPE \in {"matvec", "reduce"} -> <<"m", "k">> [] SHAPE = "outer" -> <<"m", "n">>
RankA == IF SHAPE \in {"matvec", "reduce"} THEN 2 ELSE 1
Init == A \in Conts(RankA) /\ B \in Conts(1) /\ order \in Perms(AllVars)
Next == UNCHANGED vars
\* the operand contents are given in a fixed index order (m,k); re-order the points to the factor's ix
Reorder(Cn, from, to) == {<<[k \in 1..Len(to) |-> x[1][PosIn(from, to[k])]], x[2]>> : x \in Cn}
OpsOf(e) == [t \in {"A", "B"} |-> IF t = "A" THEN (IF RankA = 2 THEN Reorder(A, <<"m", "k">>, e.facs[1].ix) ELSE A) ELSE B]
DesignOK ==
    LET e == ExprOf(order)
        o == OpsOf(e)
        r == Run(e, o, order)
    IN /\ r.z = Dense(e, o, order, C)                                  \* the dataflow does not change the result
       /\ r.mul = r.it[Len(order)] * (Len(e.facs) - 1)                 \* one product chain per innermost body
       /\ r.upd <= r.it[Len(order)] /\ r.add = r.upd - Cardinality(r.z)  \* values are positive: every output point is first written into a zero
       /\ \A k \in 1..Len(order) : Len(r.rows[k]) = r.it[k]
=============================================================================
