INIT Init
NEXT Next
CONSTRAINT Bound
CONSTRAINT Judge
CHECK_DEADLOCK FALSE
