----------------------------- MODULE MC_Coiter ------------------------------
(***************************************************************************)
(* Design level: the two-finger machine equals the declarative truth table *)
(* for every operator and every pair of fibers of the scope (explicit      *)
(* defaults count as absent).  Also emits every case for the executor.     *)
(***************************************************************************)
EXTENDS FTCoiter, Json
CONSTANTS NC, VMAX
VARIABLES op, a, b, done
vars == <<op, a, b, done>>
T == Trees1(NC, 0..VMAX)
Init == op \in {"and", "or", "xor", "sub"} /\ a \in T /\ b \in T /\ done = FALSE
Next == ~done /\ done' = TRUE /\ UNCHANGED <<op, a, b>> /\ PrintT(ToJson([kind |-> "pair", op |-> op, ops |-> <<Fib(a), Fib(b)>>]))
Pres(e) == CoordsOf(Present(e, 0))
PSet(e) == PresentCoords(e, 0, "C", <<0, 0>>)
DesignOK == TwoFinger(op, Pres(a), Pres(b)).out = ExpYields(op, PSet(a), PSet(b))
=============================================================================
