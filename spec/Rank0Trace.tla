------------------------------ MODULE Rank0Trace -----------------------------
(* C03, rank-0 tensors: Tensor-level getPayload / getPayloadRef delegate to the single boxed value; the map has exactly one (empty) point *)
EXTENDS FTStore, Json, IOUtils
Log == ndJsonDeserialize(IOEnv.TRACE_FILE)
VARIABLES i, done
vars == <<i, done>>
RECURSIVE Walk(_, _, _, _)
\* val: the spec's value; returns failing clause names
Walk(steps, k, val, acc) ==
    IF k > Len(steps) THEN acc
    ELSE LET s == steps[k] IN
         IF s.exc # "ok" THEN Walk(steps, k + 1, val, Append(acc, "P:C03:rank0"))
         ELSE IF s.op = "get" THEN Walk(steps, k + 1, val, acc \o Fails(<< <<"P:C03:rank0", s.res = val /\ s.post = val>>, <<"P:C03:read-pure", s.sameobj = 1>> >>))
         ELSE LET nv == WriteVal(s.kind, val, s.v) IN
              Walk(steps, k + 1, nv, acc \o Fails(<< <<"P:C03:rank0", s.post = nv>>, <<"P:C03:ref-aliases", s.sameobj = 1>> >>))
Init == i \in 1..Len(Log) /\ done = FALSE
Next == ~done /\ done' = TRUE /\ UNCHANGED i
        /\ LET f == Walk(Log[i].steps, 1, Log[i].v0, <<>>) IN PrintT(ToJson([tid |-> Log[i].tid, fails |-> [k \in 1..Len(f) |-> <<k, f[k]>>], n |-> Len(Log[i].steps)]))
=============================================================================
