------------------------------ MODULE MC_Store ------------------------------
(***************************************************************************)
(* Design-level check and behaviour generator for FTStore.                 *)
(*  - Init: every well-formed tree of the bounded domain (explicit         *)
(*    defaults and empty sub-fibers included); Next: every action with     *)
(*    every argument of the bounded argument domain.                       *)
(*  - Invariants: the operational definitions of FTStore (written after    *)
(*    the code) satisfy the declarative statements of C01 / C03 on every   *)
(*    transition (StepOK), i.e. the model itself has the property.         *)
(*  - Emit: prints every history of length HLEN as JSON; the executor      *)
(*    replays them on the implementation (spec -> code).                   *)
(***************************************************************************)
EXTENDS FTStore, Json, TLCExt
CONSTANTS NC,        \* base coordinates 0..NC-1 ; NC and NC+1 are "beyond" coordinates
          DEPTH,     \* depth of the trees
          VMAX,      \* leaf values 0..VMAX in initial trees
          HLEN,      \* history length at which a behaviour is emitted
          OPS        \* set of op names enabled in this configuration

VARIABLES tree, prev, hist, exc, tree0, done
vars == <<tree, prev, hist, exc, tree0, done>>

Cs == 0..NC
Vs == 0..2
InitTrees == IF DEPTH = 1 THEN Trees1(NC, 0..VMAX) ELSE IF DEPTH = 2 THEN Trees2(NC, 0..VMAX) ELSE Trees3(NC, 0..VMAX)
Others == Trees1(NC + 1, {0, 1})
Others2 == Trees2(2, {0, 1})

RECURSIVE Pts(_)
Pts(k) == IF k = 0 THEN {<<>>} ELSE {<<c>> \o p : c \in Cs, p \in Pts(k - 1)}

Acts(t) ==
  LET lp == LeafPaths(t, DEPTH)
      fp == FiberPaths(t, DEPTH)
  IN  (IF "ref" \in OPS THEN {[op |-> "ref", pt |-> p, sp |-> sp] : p \in UNION {Pts(k) : k \in 1..DEPTH}, sp \in -1..(NC - 1)} ELSE {})
 \cup (IF "write" \in OPS THEN {[op |-> "write", pt |-> p, kind |-> k, v |-> v] : p \in Pts(DEPTH), k \in {"assign", "add", "mul"}, v \in Vs} ELSE {})
 \cup (IF "append" \in OPS THEN {[op |-> "append", path |-> q, c |-> c, v |-> v] : q \in lp, c \in 0..(NC + 1), v \in {0, 1}} ELSE {})
 \cup (IF "extend" \in OPS THEN {[op |-> "extend", path |-> q, other |-> o] : q \in lp, o \in Others} ELSE {})
 \cup (IF "setitem" \in OPS THEN {[op |-> "setitem", path |-> q, pos |-> i, c |-> c, v |-> v] :
                                     q \in lp, i \in 0..(NC - 1), c \in -1..(NC + 1), v \in {-1, 0, 2}} ELSE {})
 \cup (IF "clear" \in OPS THEN {[op |-> "clear", path |-> q] : q \in fp} ELSE {})
 \cup (IF "fassign" \in OPS THEN {[op |-> "fassign", path |-> q, other |-> o, lv |-> 1] : q \in lp, o \in Others}
                                  \cup {[op |-> "fassign", path |-> q, other |-> o, lv |-> 2] : q \in fp \ lp, o \in Others2} ELSE {})
 \cup (IF "itershaperef" \in OPS THEN {[op |-> "itershaperef", path |-> q, lo |-> lo, hi |-> hi, step |-> s] :
                                     q \in fp, lo \in 0..NC, hi \in 0..(NC + 1), s \in 1..2} ELSE {})
 \cup (IF "fimul" \in OPS THEN {[op |-> "fimul", path |-> q, v |-> v] : q \in lp, v \in Vs} ELSE {})
 \cup (IF "fiadd" \in OPS /\ DEPTH = 1 THEN {[op |-> "fiadd", path |-> <<>>, v |-> v] : v \in Vs} ELSE {})
 \cup (IF "updcoords" \in OPS THEN {[op |-> "updcoords", path |-> q, fn |-> f] : q \in fp, f \in {"shift", "reverse", "double", "mirror", "recentre"}} ELSE {})
 \cup (IF "obs" \in OPS THEN {[op |-> "obs", kind |-> k] : k \in {"eq", "or", "xor", "and", "sub", "print", "count", "getabsent", "iter", "shape", "dump", "uncompress", "copy", "reroot", "transforms"}} ELSE {})
 \cup (IF "get" \in OPS THEN {[op |-> "get", path |-> q, pt |-> r, mode |-> m, sp |-> sp] :
                                  q \in fp, r \in UNION {Pts(k) : k \in 1..DEPTH}, m \in {"alloc", "dflt"}, sp \in -1..(NC - 1)} ELSE {})
 \cup (IF "getpos" \in OPS THEN {[op |-> o, path |-> q, c |-> c, sp |-> sp] : o \in {"getpos", "getposref"}, q \in fp, c \in Cs, sp \in -1..(NC - 1)} ELSE {})
 \cup (IF "hwrite" \in OPS THEN {[op |-> "hwrite", h |-> j, pt |-> hist[j].pt, kind |-> k, v |-> v] :
                                  j \in {jj \in 1..Len(hist) : hist[jj].op = "ref" /\ Len(hist[jj].pt) = DEPTH}, k \in {"assign", "add", "mul"}, v \in Vs} ELSE {})
 \cup (IF "updpayloads" \in OPS THEN {[op |-> "updpayloads", path |-> q, fn |-> f] : q \in lp, f \in {"inc", "zero", "dbl"}} ELSE {})

Init == /\ tree0 \in {Fib(e) : e \in InitTrees} /\ tree = tree0 /\ prev = tree0 /\ hist = <<>> /\ exc = "ok" /\ done = FALSE

Step == /\ Len(hist) < HLEN
        /\ \E a \in {x \in Acts(tree) : Enabled(tree, DEPTH, x)} :
             LET r == Apply(tree, DEPTH, a)
             IN /\ tree' = r.tree /\ exc' = r.exc /\ prev' = tree /\ hist' = Append(hist, a)
        /\ UNCHANGED <<tree0, done>>
\* emission is an action of its own so that -simulate prints exactly the behaviours it walked
EmitStep == /\ Len(hist) = HLEN /\ ~done
            /\ PrintT(ToJson([init |-> tree0, depth |-> DEPTH, steps |-> hist]))
            /\ done' = TRUE /\ UNCHANGED <<tree, prev, hist, exc, tree0>>
Next == Step \/ EmitStep

(***************************************************************************)
(* Declarative statements                                                   *)
(***************************************************************************)
MapGet(m, pt) == IF \E x \in m : x[1] = pt THEN (CHOOSE x \in m : x[1] = pt)[2] ELSE 0
Override(m, pt, v) == {x \in m : x[1] # pt} \cup (IF v = 0 THEN {} ELSE {<<pt, v>>})
IsPrefix(p, q) == Len(p) <= Len(q) /\ SubSeq(q, 1, Len(p)) = p
Prefixes(pt) == {SubSeq(pt, 1, k) : k \in 1..Len(pt)}
Under(m, path) == {x \in m : IsPrefix(path, x[1])}

Last == hist[Len(hist)]
StepOK ==
  hist # <<>> =>
    LET a == Last
        m0 == Content(prev, 0)
        m1 == Content(tree, 0)
    IN /\ WF(tree) /\ DepthIs(tree, DEPTH)                                    \* C01: the model keeps trees well-formed
       /\ exc = "order" => tree = prev                                        \* C01: rejected => unchanged
       /\ a.op \in {"obs", "get", "getpos"} => tree = prev
       /\ a.op = "hwrite" => m1 = Override(m0, a.pt, WriteVal(a.kind, MapGet(m0, a.pt), a.v))
       /\ a.op = "getposref" => m1 = m0 /\ Stored(tree) = Stored(prev) \cup {Append(a.path, a.c)}
       /\ a.op = "ref"   => m1 = m0 /\ Stored(tree) = Stored(prev) \cup Prefixes(a.pt)          \* C03
       /\ a.op = "write" => m1 = Override(m0, a.pt, WriteVal(a.kind, MapGet(m0, a.pt), a.v))    \* C03: map semantics
                            /\ Stored(tree) = Stored(prev) \cup Prefixes(a.pt)
       /\ (a.op = "append" /\ exc = "ok") => m1 = Override(m0, Append(a.path, a.c), a.v)
       /\ a.op = "clear"  => m1 = m0 \ Under(m0, a.path)
       /\ a.op = "fassign" => /\ m1 \ Under(m1, a.path) = m0 \ Under(m0, a.path)
                              /\ Content(FiberAt(tree, a.path), 0) = Content(Fib(a.other), 0)
       /\ a.op = "itershaperef" => m1 = m0
       /\ (a.op = "setitem" /\ exc = "ok" /\ a.c = -1 /\ a.v # -1) =>
              m1 = Override(m0, Append(a.path, FiberAt(prev, a.path).e[a.pos + 1][1]), a.v)
       /\ a.op = "fimul" => m1 = {x \in {<<y[1], IF IsPrefix(a.path, y[1]) THEN y[2] * a.v ELSE y[2]>> : y \in m0} : x[2] # 0}
       /\ a.op = "updpayloads" => m1 = {x \in {<<y[1], IF IsPrefix(a.path, y[1]) THEN ValFn(a.fn, y[2]) ELSE y[2]>> : y \in m0} : x[2] # 0}
       /\ a.op = "updcoords" => Cardinality(m1) = Cardinality(m0)

=============================================================================
