------------------------------ MODULE CostTrace ------------------------------
(* trace validation for C19 *)
EXTENDS FTCost, Json, IOUtils
Log == ndJsonDeserialize(IOEnv.TRACE_FILE)
VARIABLES i, done
vars == <<i, done>>
JudgeIntersect(B) ==
  LET tf == SumOver(B.pairs, TFSteps)
      sk == SumOver(B.pairs, SkipSteps)
      lf == SumSeq([j \in 1..Len(B.pairs) |-> Len(B.pairs[j][1])])
      \* any batching other than fiber-by-fiber: several fibers per batch, or an empty leading batch (traces handed over before the first intersection)
      oneshot(r) == Len(r.batching) < Len(B.pairs) \/ \E k \in 1..Len(r.batching) : r.batching[k] = 0
  IN Fails([k \in 1..Len(B.res) |->
       <<IF oneshot(B.res[k]) THEN "P:C19:batch-independent-two-finger" ELSE "P:C19:two-finger", B.res[k].tf_exc = "ok" /\ B.res[k].tf = tf>>]
     \o [k \in 1..Len(B.res) |->
       <<IF oneshot(B.res[k]) THEN "P:C19:batch-independent-skip-ahead" ELSE "P:C19:skip-ahead", B.res[k].skip_exc = "ok" /\ B.res[k].skip = sk>>]
     \o [k \in 1..Len(B.res) |->
       <<IF oneshot(B.res[k]) THEN "P:C19:batch-independent-leader-follower" ELSE "P:C19:leader-follower", B.res[k].lf_exc = "ok" /\ B.res[k].lf = lf>>]
     \* a leader-follower model fed ONE operand's trace of the two-finger intersections (the only trace collected): the elements that operand presented,
     \* i.e. those the merge consumed plus the head it was looking at when the other side ran out
     \o [q \in 1..2 |-> <<"P:C19:leader-follower-operand", B.oponly[q] = -9 \/ B.oponly[q] =
            SumSeq([j \in 1..Len(B.pairs) |-> LET r == TwoFinger("and", B.pairs[j][1], B.pairs[j][2])
                                                 IN IF q = 1 THEN Min(r.ia, Len(B.pairs[j][1])) ELSE Min(r.ib, Len(B.pairs[j][2]))])>>])
JudgeSwaps(B) ==
  \* sibling groups one level above the merged rank are merged independently, each with the radix given (lists2: a second group; deep: a one-list sibling)
  LET exp == SwapsOf(B.lists, B.radix, B.lat) + (IF B.lists2 # <<>> THEN SwapsOf(B.lists2, B.radix, B.lat) ELSE 0)
  IN Fails(<< <<IF B.lat = -1 THEN "P:C19:swaps-compares" ELSE "P:C19:swaps-latency", B.swaps[1] = exp>>,
              <<"P:C19:swaps-payload-free", B.swaps[1] = B.swaps[2]>> >>)
Judge(B) == IF B.exc # "ok" THEN <<"P:C19:no-exception">> ELSE IF B.kind = "intersect" THEN JudgeIntersect(B) ELSE JudgeSwaps(B)
Init == i \in 1..Len(Log) /\ done = FALSE
Next == ~done /\ done' = TRUE /\ UNCHANGED i
        /\ LET f == Judge(Log[i]) IN PrintT(ToJson([tid |-> Log[i].tid, fails |-> [k \in 1..Len(f) |-> <<1, f[k]>>], n |-> 1]))
=============================================================================
