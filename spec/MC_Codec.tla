------------------------------ MODULE MC_Codec ------------------------------
(* design level: the documented layout is lossless - Decode(Encode(t)) = Content(t) for every tensor and descriptor of the scope, with and without a larger imposed shape *)
EXTENDS FTCodec
CONSTANTS NC, DEPTH
VARIABLES t, desc, extra, dflt
vars == <<t, desc, extra, dflt>>
T == IF DEPTH = 1 THEN Trees1(NC, {0, 1, 2}) ELSE Trees2(NC, {0, 1})
Init == t \in {Fib(e) : e \in T} /\ desc \in [1..DEPTH -> {"U", "C", "B"}] /\ extra \in {0, 1} /\ dflt \in {0, 1}      \* tensor default 0, or 1 (then a stored 0 is content)
Next == UNCHANGED vars
Sh == [k \in 1..DEPTH |-> NC + extra]
DesignOK == LET enc == Encode(desc, Sh, t, dflt)
                dec == Decode(desc, Sh, enc.coords, enc.pays, enc.rootp, dflt)
            IN dec.ok /\ dec.content = Content(t, dflt)
                /\ \A k \in 1..DEPTH : dec.cur.c[k] = Len(enc.coords[k]) /\ dec.cur.p[k] = Len(enc.pays[k])      \* every stored word is consumed exactly once
=============================================================================
