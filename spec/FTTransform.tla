---------------------------- MODULE FTTransform -----------------------------
(***************************************************************************)
(* Rank transforms (C09) on the map view of a tensor.                      *)
(* A point is a sequence of coordinates; every coordinate is a sequence of *)
(* integers (an integer coordinate c is <<c>>, a tuple coordinate its      *)
(* components, flattened), so that points of flattened tensors and of      *)
(* ordinary tensors are compared uniformly.  Content: set of <<pt, v>>.    *)
(***************************************************************************)
EXTENDS FTCore

\* lexicographic order on integer sequences (coordinates)
RECURSIVE LexLt(_, _)
LexLt(a, b) == IF a = <<>> THEN b # <<>>
               ELSE IF b = <<>> THEN FALSE
               ELSE Head(a) < Head(b) \/ (Head(a) = Head(b) /\ LexLt(Tail(a), Tail(b)))
SortedS(e) == \A i \in 1..(Len(e) - 1) : LexLt(e[i][1], e[i + 1][1])
RECURSIVE WFS(_)
WFS(p) == IF p.k = "L" THEN TRUE ELSE p.k = "F" /\ SortedS(p.e) /\ \A i \in 1..Len(p.e) : WFS(p.e[i][2])

RECURSIVE ConcatC(_)
ConcatC(cs) == IF cs = <<>> THEN <<>> ELSE Head(cs) \o ConcatC(Tail(cs))

\* swizzle: new rank i holds old rank guide[i]
Permute(pt, guide) == [i \in 1..Len(pt) |-> pt[guide[i]]]
SwizzleC(C, guide) == {<<Permute(x[1], guide), x[2]>> : x \in C}
Inverse(guide) == [i \in 1..Len(guide) |-> CHOOSE j \in 1..Len(guide) : guide[j] = i]
SwapGuide(n, d) == [i \in 1..n |-> IF i = d + 1 THEN d + 2 ELSE IF i = d + 2 THEN d + 1 ELSE i]

\* flatten ranks d+1 .. d+L+1 (1-based positions in the point) into one coordinate
RECURSIVE Linear(_, _, _)
Linear(cs, shapes, acc) == IF cs = <<>> THEN acc ELSE Linear(Tail(cs), Tail(shapes), acc * Head(shapes) + Head(cs)[1])
Combine(cs, style, shapes) ==
    CASE style \in {"tuple", "pair"} -> ConcatC(cs)
      [] style = "absolute" -> cs[Len(cs)]
      [] style = "relative" -> <<SumSeq([k \in 1..Len(cs) |-> cs[k][1]])>>
      [] style = "linear"   -> <<Linear(cs, shapes, 0)>>
FlattenPt(pt, d, L, style, shapes) ==
    SubSeq(pt, 1, d) \o <<Combine(SubSeq(pt, d + 1, d + L + 1), style, SubSeq(shapes, d + 1, d + L + 1))>> \o SubSeq(pt, d + L + 2, Len(pt))
\* colliding images are reduced with the merge function
Reduce(fn, vs) == IF fn = "max" THEN (CHOOSE m \in SeqToSet(vs) : \A y \in SeqToSet(vs) : m >= y) ELSE SumSeq(vs)
MergeC(C, d, L, style, shapes, fn) ==
    LET img(x) == FlattenPt(x[1], d, L, style, shapes)
        Q == {img(x) : x \in C}
        vals(q) == LET S == {x \in C : img(x) = q} IN SetToSortedSeq({x[2] : x \in S})   \* distinct values; multiplicities below
        total(q) == LET S == {x \in C : img(x) = q} IN
                    IF fn = "max" THEN Reduce("max", SetToSortedSeq({x[2] : x \in S}))
                    ELSE SumSeq(LET ss == SetToSortedSeq({x[2] : x \in S}) IN [k \in 1..Len(ss) |-> ss[k] * Cardinality({x \in S : x[2] = ss[k]})])
    IN {y \in {<<q, total(q)>> : q \in Q} : y[2] # 0}
Injective(C, d, L, style, shapes) == Cardinality({FlattenPt(x[1], d, L, style, shapes) : x \in C}) = Cardinality(C)
\* unflatten a flattened (tuple / pair) coordinate at position d+1 into its L+1 components (each one integer)
UnflattenPt(pt, d, L) == SubSeq(pt, 1, d) \o [k \in 1..(L + 1) |-> <<pt[d + 1][k]>>] \o SubSeq(pt, d + 2, Len(pt))
\* coordinate / payload updates below a depth
CoordFn(fn, c) == CASE fn = "shift" -> <<c[1] + 2>> [] fn = "reverse" -> <<10 - c[1]>> [] fn = "double" -> <<2 * c[1]>> [] OTHER -> c
ValFn(fn, v) == CASE fn = "inc" -> v + 1 [] fn = "dbl" -> 2 * v [] OTHER -> v
UpdCoordsC(C, d, fn) == {<<[i \in 1..Len(x[1]) |-> IF i = d + 1 THEN CoordFn(fn, x[1][i]) ELSE x[1][i]], x[2]>> : x \in C}
=============================================================================
