---------------------------- MODULE CoiterTrace -----------------------------
(***************************************************************************)
(* Trace validation for C04.  One log line = one co-iteration executed on  *)
(* the implementation: operands (projected with identities) before and     *)
(* after, the yielded <<coordinate, mask, payloads>> and a write through a *)
(* delivered payload.                                                      *)
(***************************************************************************)
EXTENDS FTCoiter, Json, IOUtils
Log == ndJsonDeserialize(IOEnv.TRACE_FILE)
VARIABLES i, done
vars == <<i, done>>

RECURSIVE Abs(_)
Abs(p) == IF p.k = "F" THEN Fib([k \in 1..Len(p.e) |-> <<p.e[k][1], Abs(p.e[k][2])>>])
          ELSE IF p.k = "L" THEN Leaf(p.v) ELSE [k |-> "X"]
RECURSIVE IdsOf(_)
IdsOf(p) == IF p.k = "F" THEN {p.id} \cup UNION {IdsOf(p.e[k][2]) : k \in 1..Len(p.e)} ELSE IF p.k = "L" THEN {p.id} ELSE {}

\* the operand fibers themselves (root of a tensor projection or the fiber)
OpE(B, k) == B.pre[k].root.e
DfltOf(B, k) == B.dflts[k]                      \* the operands may have different leaf defaults
PSetOf(B, k) == PresentCoords(OpE(B, k), DfltOf(B, k), B.fmt[k], B.act[k])
StoredIds(B) == UNION {IdsOf(B.pre[k].root) : k \in 1..Len(B.pre)}
IsDefaultP(p, B, k) == (p.k = "L" /\ p.v = DfltOf(B, k)) \/ (p.k = "F" /\ Len(p.e) = 0)       \* the default of THAT side

\* payload delivered for operand k at coordinate c must BE the stored object when c is stored, else a fresh default
PayloadOK(B, k, c, p, present) ==
    IF present /\ Has(OpE(B, k), c) THEN p.id = Get(OpE(B, k), c).id
    ELSE IsDefaultP(p, B, k) /\ p.id \notin StoredIds(B)
\* fresh defaults delivered at different yields are different objects
FreshDistinct(B) == LET fr == {<<j, q>> \in {<<jj, qq>> : jj \in 1..Len(B.ys), qq \in 1..Len(B.pre)} :
                                  q <= Len(B.ys[j].ps) /\ B.ys[j].ps[q].id \notin StoredIds(B)}
                    IN \A x, y \in fr : x # y => B.ys[x[1]].ps[x[2]].id # B.ys[y[1]].ps[y[2]].id

JudgePair(B) ==
  LET A == PSetOf(B, 1)  BB == PSetOf(B, 2)
      exp == ExpYields(B.op, A, BB)
      n == Len(B.ys)
      cs == [j \in 1..n |-> B.ys[j].c]
      shapeOK == n = Len(exp) /\ \A j \in 1..n : Len(B.ys[j].ps) = (IF B.op = "sub" THEN 1 ELSE 2)
  IN Fails(<<
      <<"P:C04:coords", cs = [j \in 1..Len(exp) |-> exp[j][1]]>>,
      <<"P:C04:mask", (shapeOK /\ B.op \in {"or", "xor"}) => \A j \in 1..n : B.ys[j].m = exp[j][2]>>,
      <<"P:C04:payload-identity", (shapeOK /\ cs = [j \in 1..Len(exp) |-> exp[j][1]]) => \A j \in 1..n :
            /\ PayloadOK(B, 1, cs[j], B.ys[j].ps[1], cs[j] \in A)
            /\ (B.op # "sub" => PayloadOK(B, 2, cs[j], B.ys[j].ps[2], cs[j] \in BB))>>,
      <<"P:C04:fresh-default", shapeOK => FreshDistinct(B)>>,
      <<"P:C04:operands-unmodified", B.post = B.pre>>,
      <<"P:C04:write-through", B.wt.done = 1 => LET dw == DfltOf(B, B.wt.k) IN Content(Abs(B.wt.after.root), dw) =
              ({x \in Content(Abs(B.pre[B.wt.k].root), dw) : x[1] # B.wt.pt} \cup (IF B.wt.v = dw THEN {} ELSE {<<B.wt.pt, B.wt.v>>}))>>
     >>)

JudgeNary(B) ==
  LET As == [k \in 1..Len(B.pre) |-> PSetOf(B, k)]
      exp == IF B.op = "intersection" THEN InterN(As) ELSE IF B.op = "union" THEN UnionN(As) ELSE SetToSortedSeq(As[1])
      n == Len(B.ys)
      cs == [j \in 1..n |-> B.ys[j].c]
      flat == \A j \in 1..n : Len(B.ys[j].ps) = Len(B.pre) /\ \A q \in 1..Len(B.pre) : B.ys[j].ps[q].k \in {"L", "F"}
  IN Fails(<<
      <<"P:C04:nary-coords", cs = exp>>,
      <<"P:C04:nary-flat", flat>>,
      <<"P:C04:nary-mask", (B.op = "union" /\ cs = exp) => \A j \in 1..n : B.ys[j].m = MaskN(As, cs[j], 1)>>,
      <<"P:C04:nary-payloads", (flat /\ cs = exp) => \A j \in 1..n : \A q \in 1..Len(B.pre) :
            \* leader-follower: a follower delivers whatever it stores at the leader's coordinate (explicit default included), else a default
            PayloadOK(B, q, cs[j], B.ys[j].ps[q], IF B.op = "lf" /\ q > 1 THEN TRUE ELSE cs[j] \in As[q])>>,
      <<"P:C04:operands-unmodified", B.post = B.pre>> >>)

\* prefix match: coordinates are sequences; a (shorter) matches b on the common prefix; result carries b's coordinates
JudgePrefix(B) ==
  LET ea == OpE(B, B.short)   el == OpE(B, B.long)
      pa == Present(ea, B.dflt)  pl == Present(el, B.dflt)
      la == B.lens[B.short]
      expi == SelectSeq([j \in 1..Len(pl) |-> j], LAMBDA j : \E k \in 1..Len(pa) : pa[k][1] = SubSeq(pl[j][1], 1, la))
      n == Len(B.ys)
  IN Fails(<<
      <<"P:C04:prefix-match", n = Len(expi) /\ \A j \in 1..n : B.ys[j].c = pl[expi[j]][1]>>,
      <<"P:C04:prefix-payloads", (n = Len(expi) /\ \A j \in 1..n : B.ys[j].c = pl[expi[j]][1]) => \A j \in 1..n :
            /\ B.ys[j].ps[B.long].id = pl[expi[j]][2].id
            /\ B.ys[j].ps[B.short].id = (pa[CHOOSE k \in 1..Len(pa) : pa[k][1] = SubSeq(pl[expi[j]][1], 1, la)][2]).id>>,
      <<"P:C04:operands-unmodified", B.post = B.pre>> >>)

Judge(B) == IF B.exc # "ok" THEN <<"P:C04:no-exception">>
            ELSE IF B.kind = "pair" THEN JudgePair(B) ELSE IF B.kind = "prefix" THEN JudgePrefix(B) ELSE JudgeNary(B)

Init == i \in 1..Len(Log) /\ done = FALSE
Next == ~done /\ done' = TRUE /\ UNCHANGED i
        /\ LET f == Judge(Log[i]) IN PrintT(ToJson([tid |-> Log[i].tid, fails |-> [k \in 1..Len(f) |-> <<1, f[k]>>], n |-> 1]))
=============================================================================
