------------------------------ MODULE IterTrace ------------------------------
(***************************************************************************)
(* Trace validation for C07: one log line = one traversal executed on the  *)
(* implementation, with the fiber (with identities) before and after, the  *)
(* yields of a first and a second traversal and, for lazy fibers, the      *)
(* materialised eager fiber.                                               *)
(***************************************************************************)
EXTENDS FTTraverse, Json, IOUtils
Log == ndJsonDeserialize(IOEnv.TRACE_FILE)
VARIABLES i, done
vars == <<i, done>>

RECURSIVE Abs(_)
Abs(p) == IF p.k = "F" THEN Fib([k \in 1..Len(p.e) |-> <<p.e[k][1], Abs(p.e[k][2])>>])
          ELSE IF p.k = "L" THEN Leaf(p.v) ELSE [k |-> "X"]
RECURSIVE IdsOf(_)
IdsOf(p) == IF p.k = "F" THEN {p.id} \cup UNION {IdsOf(p.e[k][2]) : k \in 1..Len(p.e)} ELSE IF p.k = "L" THEN {p.id} ELSE {}

E(B) == B.pre.root.e
IsDefaultP(p, d) == (p.k = "L" /\ p.v = d) \/ (p.k = "F" /\ Len(p.e) = 0)
ActLo(B) == IF B.hasact = 1 THEN B.act[1] ELSE 0
ActHi(B) == IF B.hasact = 1 THEN B.act[2] ELSE B.shape

\* yields must be exactly the stored elements at the given indices (coordinate and identity of the payload object)
YieldsAreElems(ys, e, idx) == /\ Len(ys) = Len(idx)
                              /\ \A k \in 1..Len(idx) : ys[k].c = e[idx[k]][1] /\ ys[k].p.id = e[idx[k]][2].id
\* dense yields: every coordinate of cs, stored payload object or a default that is stored nowhere
YieldsFill(ys, e, cs, d, stored) == /\ Len(ys) = Len(cs)
                                    /\ \A k \in 1..Len(cs) : /\ ys[k].c = cs[k]
                                                            /\ IF Has(e, cs[k]) THEN ys[k].p.id = Get(e, cs[k]).id
                                                               ELSE IsDefaultP(ys[k].p, d) /\ ys[k].p.id \notin stored

JudgeIter(B) ==
  LET e == E(B)  d == B.dflt
      m == IF B.mode = "default" THEN (IF B.fmt = "U" THEN "activeshape" ELSE "occ") ELSE B.mode
      stored == IdsOf(B.pre.root)
      sparse == m \in {"occ", "range", "active"}
      idx == CASE m = "occ" -> SliceIdx(e, d, 0, 0, 0, 0)
               [] m = "range" -> SliceIdx(e, d, B.haslo, B.lo, B.hashi, B.hi)
               [] m = "active" -> SliceIdx(e, d, 1, ActLo(B), 1, ActHi(B))
               [] OTHER -> <<>>
      cs  == CASE m = "shape" -> FillCoords(0, B.shape, 1)
               [] m = "rangeshape" -> FillCoords(B.lo, B.hi, B.step)
               [] m = "activeshape" -> FillCoords(ActLo(B), ActHi(B), 1)
               [] OTHER -> <<>>
      okY == IF sparse THEN YieldsAreElems(B.ys, e, idx) ELSE YieldsFill(B.ys, e, cs, d, stored)
      name == CASE m = "occ" -> "P:C07:occupancy" [] m \in {"range", "active"} -> "P:C07:range-clip" [] OTHER -> "P:C07:shape-fill"
  IN Fails(<<
       <<IF B.mode = "default" THEN "P:C07:format-dispatch" ELSE IF B.sp # -1 THEN "P:C07:shortcut-invariant" ELSE name, okY>>,
       <<"P:C07:nonref-pure", B.post = B.pre>> >>)

Visited(cs, take) == IF take >= 0 /\ take < Len(cs) THEN SubSeq(cs, 1, take) ELSE cs      \* a traversal abandoned after `take` yields visited only those coordinates
JudgeIterRef(B) ==
  LET e == E(B)  d == B.dflt
      cs0 == CASE B.mode = "shaperef" -> FillCoords(0, B.shape, 1)
              [] B.mode = "rangeshaperef" -> FillCoords(B.lo, B.hi, B.step)
              [] OTHER -> FillCoords(ActLo(B), ActHi(B), 1)
      cs == Visited(cs0, B.take)
      e1 == B.post.root.e
      okp == NoForeign(B.post.root) /\ Sorted(e1)
  IN Fails(<<
       <<"P:C07:shape-fill", Len(B.ys) = Len(cs) /\ \A k \in 1..Len(cs) : B.ys[k].c = cs[k]>>,
       <<"P:C07:ref-inserts-exactly", okp /\ CoordSet(e1) = CoordSet(e) \cup SeqToSet(cs)
                                      /\ \A k \in 1..Len(e) : Get(e1, e[k][1]).id = e[k][2].id          \* stored payloads stay the same objects
                                      /\ \A c \in SeqToSet(cs) \ CoordSet(e) : IsDefaultP(Get(e1, c), d)>>,
       <<"P:C07:ref-yields-stored", (okp /\ Len(B.ys) = Len(cs)) => \A k \in 1..Len(cs) : Has(e1, cs[k]) /\ B.ys[k].p.id = Get(e1, cs[k]).id>> >>)

\* dense co-iteration of several fibers over one range: zip of the single-fiber fills
JudgeCoiter(B) ==
  LET cs0 == CASE B.mode \in {"shape", "shaperef"} -> FillCoords(0, B.shape, 1)
              [] B.mode \in {"rangeshape", "rangeshaperef"} -> FillCoords(B.lo, B.hi, B.step)
              [] OTHER -> FillCoords(ActLo(B), ActHi(B), 1)
      cs == Visited(cs0, B.take)
      n == Len(B.pres)
      isref == B.mode \in {"shaperef", "rangeshaperef", "activeshaperef"}
  IN Fails(<<
       <<"P:C07:coiter-zip", Len(B.ys) = Len(cs) /\ \A k \in 1..Len(cs) : B.ys[k].c = cs[k] /\ Len(B.ys[k].ps) = n>>,
       <<"P:C07:coiter-payloads", (Len(B.ys) = Len(cs) /\ \A k \in 1..Len(cs) : Len(B.ys[k].ps) = n) => \A k \in 1..Len(cs) : \A q \in 1..n :
             LET e == B.pres[q].root.e  e1 == B.posts[q].root.e IN
             IF Has(e, cs[k]) THEN B.ys[k].ps[q].id = Get(e, cs[k]).id
             ELSE IF isref THEN Has(e1, cs[k]) /\ B.ys[k].ps[q].id = Get(e1, cs[k]).id /\ IsDefaultP(Get(e1, cs[k]), B.dflt)
             ELSE IsDefaultP(B.ys[k].ps[q], B.dflt)>>,
       <<IF isref THEN "P:C07:ref-inserts-exactly" ELSE "P:C07:nonref-pure",
             IF isref THEN \A q \in 1..n : CoordSet(B.posts[q].root.e) = CoordSet(B.pres[q].root.e) \cup SeqToSet(cs)
             ELSE B.posts = B.pres>> >>)

JudgeProject(B) ==
  LET e == E(B)
      idx == ProjectIdx(e, B.dflt, B.s, B.o, B.hasiv, B.iv[1], B.iv[2])
      ok(ys) == Len(ys) = Len(idx) /\ \A k \in 1..Len(idx) : ys[k].c = Affine(B.s, B.o, e[idx[k]][1]) /\ ys[k].p.id = e[idx[k]][2].id
  IN Fails(<<
       <<IF B.s < 0 THEN "P:C07:project-reversed" ELSE "P:C07:project", ok(B.ys)>>,
       <<"P:C07:lazy-repeatable", B.ys2 = B.ys>>,
       <<"P:C07:lazy-materialise", ok(B.ys) => (NoForeign(B.mat) /\ Len(B.mat.e) = Len(B.ys)
                                               /\ \A k \in 1..Len(B.ys) : B.mat.e[k][1] = B.ys[k].c /\ Abs(B.mat.e[k][2]) = Abs(B.ys[k].p))>>,
       <<"P:C07:nonref-pure", B.post = B.pre>> >>)

JudgePrune(B) ==
  LET e == E(B)
      pres == SliceIdx(e, B.dflt, 0, 0, 0, 0)
      keep(k) == CASE B.pred = "evencoord" -> e[k][1] % 2 = 0
                   [] B.pred = "bigval" -> e[k][2].v > 1
                   [] B.pred = "evenpos" -> (CHOOSE j \in 1..Len(pres) : pres[j] = k) % 2 = 1     \* enumeration index (0-based) even
                   [] OTHER -> TRUE
      \* on a rank declared uncompressed the predicate is shown every coordinate of the active range (position = offset into it, a default standing in for
      \* an absent one); what survives into the result are the stored non-default elements it accepted
      keepU(k) == LET c == e[k][1]  off == c - ActLo(B)
                  IN /\ ~IsDefaultP(e[k][2], B.dflt) /\ c >= ActLo(B) /\ c < ActHi(B)
                     /\ CASE B.pred = "evencoord" -> c % 2 = 0 [] B.pred = "bigval" -> e[k][2].v > 1 [] B.pred = "evenpos" -> off % 2 = 0 [] OTHER -> TRUE
      idx == IF B.fmt = "U" THEN SelectSeq([k \in 1..Len(e) |-> k], keepU) ELSE SelectSeq(pres, keep)
      ok(ys) == YieldsAreElems(ys, e, idx)
  IN Fails(<<
       <<"P:C07:prune", ok(B.ys)>>,
       <<"P:C07:lazy-repeatable", B.ys2 = B.ys>>,
       <<"P:C07:lazy-materialise", ok(B.ys) => (NoForeign(B.mat) /\ Len(B.mat.e) = Len(B.ys)
                                               /\ \A k \in 1..Len(B.ys) : B.mat.e[k][1] = B.ys[k].c /\ Abs(B.mat.e[k][2]) = Abs(B.ys[k].p))>>,
       <<"P:C07:nonref-pure", B.post = B.pre>> >>)

Judge(B) == IF B.exc # "ok" THEN <<"P:C07:no-exception">>
            ELSE CASE B.kind = "iter" -> JudgeIter(B) [] B.kind = "iterref" -> JudgeIterRef(B) [] B.kind = "coiter" -> JudgeCoiter(B)
                   [] B.kind = "project" -> JudgeProject(B) [] B.kind = "prune" -> JudgePrune(B)

Init == i \in 1..Len(Log) /\ done = FALSE
Next == ~done /\ done' = TRUE /\ UNCHANGED i
        /\ LET f == Judge(Log[i]) IN PrintT(ToJson([tid |-> Log[i].tid, fails |-> [k \in 1..Len(f) |-> <<1, f[k]>>], n |-> 1]))
=============================================================================
