----------------------------- MODULE FTTraverse -----------------------------
(***************************************************************************)
(* Traversal modes of a fiber (C07).                                       *)
(* Declarative: Slice / Fill over the element list.                        *)
(* Operational: the loops of iterators.py (iterRange with start position   *)
(* and early break; iterRangeShape by lookup per coordinate).              *)
(***************************************************************************)
EXTENDS FTCore

\* ---- declarative ----
InRange(c, haslo, lo, hashi, hi) == (haslo = 0 \/ c >= lo) /\ (hashi = 0 \/ c < hi)
\* indices (1-based positions) of the non-empty elements inside the half-open range, ascending
SliceIdx(e, dflt, haslo, lo, hashi, hi) ==
    SelectSeq([k \in 1..Len(e) |-> k], LAMBDA k : ~IsEmptyP(e[k][2], dflt) /\ InRange(e[k][1], haslo, lo, hashi, hi))
FillCoords(lo, hi, step) == IF hi <= lo THEN <<>> ELSE [k \in 1..((hi - lo + step - 1) \div step) |-> lo + (k - 1) * step]

\* a saved-position shortcut p (0-based) is valid for a range when nothing at or after the range start lies before it
ValidSP(e, sp, haslo, lo) == sp = -1 \/ (sp = 0 /\ Len(e) > 0) \/ (sp > 0 /\ sp < Len(e) /\ haslo = 1 /\ e[sp][1] < lo)

\* ---- operational: iterRange (iterators.py:122-188) ----
RECURSIVE IterRangeOp(_, _, _, _, _, _, _, _)
IterRangeOp(e, dflt, j, haslo, lo, hashi, hi, out) ==
    IF j > Len(e) THEN out
    ELSE IF hashi = 1 /\ e[j][1] >= hi THEN out                                   \* break
    ELSE IF (haslo = 0 \/ e[j][1] >= lo) /\ ~IsEmptyP(e[j][2], dflt)
         THEN IterRangeOp(e, dflt, j + 1, haslo, lo, hashi, hi, Append(out, j))
         ELSE IterRangeOp(e, dflt, j + 1, haslo, lo, hashi, hi, out)

\* ---- projection ----
Affine(s, o, c) == s * c + o
\* expected yields of project(trans = s*c+o, interval): <<new coordinate, index of the source element>> ascending in the new coordinate
ProjectIdx(e, dflt, s, o, hasiv, ilo, ihi) ==
    LET idx == SelectSeq([k \in 1..Len(e) |-> k], LAMBDA k : ~IsEmptyP(e[k][2], dflt)
                             /\ (hasiv = 0 \/ (Affine(s, o, e[k][1]) >= ilo /\ Affine(s, o, e[k][1]) < ihi)))
    IN IF s > 0 THEN idx ELSE [k \in 1..Len(idx) |-> idx[Len(idx) + 1 - k]]
=============================================================================
