------------------------------ MODULE MC_Cache ------------------------------
(* design level (C17, cache): on every read trace of the scope the furthest-next-use policy with bypass (the transcription of cacheTraffic's
   callbacks) incurs exactly the least number of fills any replacement schedule can achieve (exhaustive recursion over keep / bypass / victim);
   with writes: fills only for read misses, every dirty line is drained at least once and no more often than it is written, no fill more than
   read accesses, nothing left resident at the end, overflow only through pinned staging lines *)
EXTENDS FTBuffer
CONSTANTS N, NL, RW
VARIABLES tr, cap, epl
vars == <<tr, cap, epl>>
Stamps == SetToSortedSeq({i * 10 + j : i \in 0..2, j \in 0..2})
Rows == [1..N -> [p : 0..(NL - 1), w : (IF RW = 1 THEN {0, 1} ELSE {0})]]
Init == /\ \E f \in Rows : tr = [k \in 1..N |-> [stamp |-> <<Stamps[k] \div 10, Stamps[k] % 10>>, coords |-> <<Stamps[k] \div 10, f[k].p>>, pos |-> f[k].p, w |-> f[k].w]]
        /\ cap \in 0..NL /\ epl \in {1, 2}
Next == UNCHANGED vars
\* the last line of the scope lies in the staging area when writes are bound
B == [mask |-> <<0, 1>>, epl |-> epl, ev |-> 0, shape |-> IF epl = 1 THEN NL - 1 ELSE 2 * ((NL - 1) \div 2), staged |-> (RW = 1)]
\* read traces without a pinned staging area (pinned lines may exceed the capacity, which no replacement schedule can)
ReadOnly == \A k \in 1..Len(tr) : tr[k].w = 0 /\ (~B.staged \/ tr[k].pos < B.shape)
NoStaged == \A k \in 1..Len(tr) : ~B.staged \/ tr[k].pos < B.shape
DirtyLines == {LineOf(tr[k], B) : k \in {j \in 1..Len(tr) : WrittenBack(tr[j], B)}}
DesignOK == LET o == CacheOp(tr, B, cap) IN
            /\ o.res = {}
            /\ ReadOnly => (o.fills = OptFills(tr, B, cap, 1, {}) /\ o.wbs = 0 /\ o.over = 0)
            /\ o.fills <= Cardinality({k \in 1..Len(tr) : tr[k].w = 0})
            /\ o.wbs >= Cardinality(DirtyLines)
            /\ o.wbs <= Cardinality({k \in 1..Len(tr) : WrittenBack(tr[k], B)})
            /\ ReadOnly => o.fills >= DistinctLines(tr, B)
            /\ NoStaged => o.over = 0
            /\ (cap >= DistinctLines(tr, B)) => (o.over = 0 /\ o.wbs = Cardinality(DirtyLines))
=============================================================================
