----------------------------- MODULE StoreTrace -----------------------------
(***************************************************************************)
(* Trace validation for C01 / C02: every logged call of a mutation history *)
(* executed on the implementation must be a step of FTStore, and every     *)
(* clause of the two properties is evaluated on the implementation's       *)
(* projected state after every call.                                       *)
(* One behaviour per log line; never blocks: failing clauses are recorded  *)
(* in `fails` and the spec state is re-synchronised with the logged state. *)
(*   P:...  clause of a listed property   S:... conformance beyond them    *)
(***************************************************************************)
EXTENDS FTStore, Json, IOUtils

Log == ndJsonDeserialize(IOEnv.TRACE_FILE)

VARIABLES i, l, st, fails, dead
vars == <<i, l, st, fails, dead>>

B == Log[i]
Init == /\ i \in 1..Len(Log) /\ l = 0 /\ st = Abs(Log[i].init) /\ fails = <<>> /\ dead = FALSE

Judge(ev) ==
  LET root == ev.post.root
      isT  == B.emb = "tensor"
      c01  == <<
         <<"P:C01:boxed-interior", NoForeign(root)>>,
         <<"P:C01:parallel-lists", NoForeign(root) => ParallelLists(root)>>,
         <<"P:C01:sorted-unique",  NoForeign(root) => SortedUnique(root)>>,
         <<"P:C01:uniform-depth",  NoForeign(root) => DepthIs(root, B.depth)>>,
         <<"P:C01:rejected-unchanged", (ev.exc = "order" /\ NoForeign(root)) => Abs(root) = st>> >>
      c02  == IF isT /\ NoForeign(root) THEN <<
         <<"P:C02:rank-mirror", \A r \in 1..Len(ev.post.ranks) : RankListOK(ev.post, r)>>,
         <<"P:C02:owner", OwnersOK(root, 0)>>,
         <<"P:C02:chain", ChainOK(ev.post) /\ Len(ev.post.ranks) = B.depth>>,
         <<"P:C02:root-first", RootFirst(ev.post)>> >> ELSE <<>>
      en   == Enabled(st, B.depth, ev.act)
      exp  == IF en THEN Apply(st, B.depth, ev.act) ELSE Outcome(st, "disabled")
      sc   == IF en /\ NoForeign(root) THEN <<
         <<"S:outcome", ev.exc = exp.exc>>,
         <<"S:post-conform", ev.exc = exp.exc => Abs(root) = exp.tree>> >> ELSE <<>>
  IN Fails(c01 \o c02 \o sc)

Next == /\ l < Len(B.steps) /\ ~dead
        /\ LET ev == B.steps[l + 1]
               f  == Judge(ev)
           IN /\ fails' = fails \o [k \in 1..Len(f) |-> <<l + 1, f[k]>>]
              /\ dead' = ~(NoForeign(ev.post.root) /\ SortedUnique(ev.post.root) /\ DepthIs(ev.post.root, B.depth))
              /\ st' = IF dead' THEN st ELSE Abs(ev.post.root)
        /\ l' = l + 1 /\ UNCHANGED i

Done == (l = Len(B.steps) \/ dead) => PrintT(ToJson([tid |-> B.tid, fails |-> fails, n |-> l]))
=============================================================================
