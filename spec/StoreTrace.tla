----------------------------- MODULE StoreTrace -----------------------------
(***************************************************************************)
(* Trace validation for C01 / C02: every logged call of a mutation history *)
(* executed on the implementation must be a step of FTStore, and every     *)
(* clause of the two properties is evaluated on the implementation's       *)
(* projected state after every call (and on the freshly constructed        *)
(* object, step 0).                                                        *)
(* One behaviour per log line; never blocks: failing clauses are recorded  *)
(* in `fails` and the spec state is re-synchronised with the logged state. *)
(*   P:...  clause of a listed property   S:... conformance beyond them    *)
(***************************************************************************)
EXTENDS FTStore, Json, IOUtils

Log == ndJsonDeserialize(IOEnv.TRACE_FILE)

VARIABLES i, l, st, fails, dead, pf    \* pf: state clauses already failing in the previous state (reported once, where they first break)
vars == <<i, l, st, fails, dead, pf>>

B == Log[i]

Good(root, depth) == NoForeign(root) /\ ParallelLists(root) /\ SortedUnique(root) /\ DepthIs(root, depth)

\* clauses on a projected object state (tensor or raw fiber)
StateClauses(BB, ps) ==
  LET root == ps.root
      ok   == NoForeign(root)
      isT  == BB.emb = "tensor"
  IN << <<"P:C01:boxed-interior", ok>>,
        <<"P:C01:parallel-lists", ok => ParallelLists(root)>>,
        <<"P:C01:sorted-unique",  ok => SortedUnique(root)>>,
        <<"P:C01:uniform-depth",  ok => DepthIs(root, BB.depth)>>,
        <<"P:C02:rank-mirror", (ok /\ isT) => \A r \in 1..Len(ps.ranks) : RankListOK(ps, r)>>,
        <<"P:C02:owner",       (ok /\ isT) => OwnersOK(root, 0)>>,
        <<"P:C02:chain",       (ok /\ isT) => (ChainOK(ps) /\ Len(ps.ranks) = BB.depth)>>,
        <<"P:C02:root-first",  (ok /\ isT) => RootFirst(ps)>> >>

Init == /\ i \in 1..Len(Log) /\ l = 0
        /\ LET BB   == Log[i]
               root == BB.init0.root
               good == Good(root, BB.depth)
               f    == Fails(StateClauses(BB, BB.init0) \o << <<"S:ctor-conform", NoForeign(root) => Abs(root) = Abs(BB.init)>> >>)
           IN /\ st = IF good THEN Abs(root) ELSE Abs(BB.init)
              /\ dead = ~good
              /\ fails = [k \in 1..Len(f) |-> <<0, f[k]>>]
              /\ pf = SeqToSet(Fails(StateClauses(BB, BB.init0)))

Judge(ev) ==
  LET root == ev.post.root
      ok   == NoForeign(root)
      en   == Enabled(st, B.depth, ev.act)
      exp  == IF en THEN Apply(st, B.depth, ev.act) ELSE Outcome(st, "disabled")
      sc   == IF en /\ ok THEN <<
                 <<"S:outcome", ev.exc = exp.exc>>,
                 <<"S:post-conform", ev.exc = exp.exc => Abs(root) = exp.tree>> >> ELSE <<>>
  IN SelectSeq(Fails(StateClauses(B, ev.post)), LAMBDA c : c \notin pf)
        \o Fails(<< <<"P:C01:rejected-unchanged", (ev.exc = "order" /\ ok) => Abs(root) = st>> >> \o sc)

\* after the last call: the per-rank footprint under a specification that charges one bit per fiber (fhbits = 1, everything else 0) is the number of
\* fibers the live tree holds at that depth - a quantity derived from the rank lists describes the live tree and nothing else
FinalClauses(ev) ==
  LET root == ev.post.root
  IN IF B.emb = "tensor" /\ Good(root, B.depth) /\ Len(B.rankfp) = B.depth
     THEN Fails(<< <<"P:C02:rank-footprint", \A r \in 1..B.depth : B.rankfp[r] = CountFibersAt(Abs(root), r - 1)>> >>)
     ELSE <<>>

Next == /\ l < Len(B.steps) /\ ~dead
        /\ LET ev == B.steps[l + 1]
               f  == Judge(ev) \o (IF l + 1 = Len(B.steps) THEN FinalClauses(ev) ELSE <<>>)
           IN /\ fails' = fails \o [k \in 1..Len(f) |-> <<l + 1, f[k]>>]
              /\ pf' = SeqToSet(Fails(StateClauses(B, ev.post)))
              /\ dead' = ~Good(ev.post.root, B.depth)
              /\ st' = IF dead' THEN st ELSE Abs(ev.post.root)
        /\ l' = l + 1 /\ UNCHANGED i

Done == (l = Len(B.steps) \/ dead) => PrintT(ToJson([tid |-> B.tid, fails |-> fails, n |-> l]))
=============================================================================
