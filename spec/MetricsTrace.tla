---------------------------- MODULE MetricsTrace ----------------------------
(* trace validation for C15: metrics collection is transparent, exact and session-isolated *)
EXTENDS FTKernel, Json, IOUtils
Log == ndJsonDeserialize(IOEnv.TRACE_FILE)
VARIABLES i, done
vars == <<i, done>>
RECURSIVE Abs(_)
Abs(p) == IF p.k = "F" THEN Fib([k \in 1..Len(p.e) |-> <<p.e[k][1], Abs(p.e[k][2])>>])
          ELSE IF p.k = "L" THEN Leaf(p.v) ELSE [k |-> "X"]
OpsFrom(trees, names) == [t \in names |-> Content(Abs(trees[t]), 0)]
FreshState == [collecting |-> "true", iteration |-> "[]", point |-> "[]", line_order |-> "[]", loop_order |-> "[]", fiber_label |-> "[]", traces |-> "[]",
               metrics |-> "[]", rank_matches |-> "[]", all_rank_matches |-> "[]", rank_flatten |-> "[]", prefix |-> "\"set\""]
Completed(s) == s.exc = "ok" /\ s.abort = 0
JudgeSession(s) ==
  LET names == {s.expr1.facs[k].t : k \in 1..Len(s.expr1.facs)}
      cfg   == [ufmt |-> {<<s.ufmt[k][1], s.ufmt[k][2]>> : k \in 1..Len(s.ufmt)}, ext |-> s.extents, nofilter |-> (s.nofilter = 1)]
      mach  == IF s.plus = 1 THEN RunAdd(OpsFrom(s.ops1, names)) ELSE IF s.plus = 2 THEN RunProd(OpsFrom(s.ops1, names), s.extents.k) ELSE RunX(s.expr1, OpsFrom(s.ops1, names), s.order, cfg)
      exact == s.style = "tf"
  IN IF s.abort # 0 THEN <<>>
     ELSE IF s.exc # "ok" THEN <<IF s.collect = 1 THEN "P:C15:transparent" ELSE "S:kernel-exception">>      \* a kernel that runs with collection off must run with it on
     ELSE IF s.collect = 0 THEN <<>>
     ELSE Fails(<<
        <<"P:C15:session-fresh-state", s.state_begin = FreshState>>,
        <<"P:C15:mul-count", exact => s.mul = mach.mul>>,
        <<"P:C15:add-count", exact => s.add = mach.add>>,
        <<"P:C15:update-count", exact => s.upd = mach.upd>>,
        <<"P:C15:numops-agrees", s.numops = <<s.mul, s.add>> >>,
        <<"P:C15:iter-count", exact => \A k \in 1..Len(s.files) : (s.files[k].type = "iter" /\ s.files[k].level > 0 /\ s.files[k].level <= Len(mach.it)) =>
                                           (IF mach.it[s.files[k].level] = 0 /\ s.files[k].exists = 0 THEN TRUE ELSE s.files[k].numiters = mach.it[s.files[k].level])>>,
        <<"P:C15:collect-ended", s.state_end.collecting = "false">> >>)
Judge(B) ==
  LET n == Len(B.sessions)
      RECURSIVE Cat(_)
      Cat(ss) == IF ss = <<>> THEN <<>> ELSE Head(ss) \o Cat(Tail(ss))
      per == Cat([k \in 1..n |-> JudgeSession(B.sessions[k])])
      pairs == {<<a, b>> \in (1..n) \X (1..n) : a < b /\ B.sessions[a].kid = B.sessions[b].kid /\ Completed(B.sessions[a]) /\ Completed(B.sessions[b])}
      transparent == \A p \in pairs : B.sessions[p[1]].z = B.sessions[p[2]].z
      same == \A p \in pairs : (B.sessions[p[1]].collect = 1 /\ B.sessions[p[2]].collect = 1 /\ B.sessions[p[1]].traces = B.sessions[p[2]].traces) =>
                 (B.sessions[p[1]].mul = B.sessions[p[2]].mul /\ B.sessions[p[1]].add = B.sessions[p[2]].add /\ B.sessions[p[1]].upd = B.sessions[p[2]].upd
                  /\ B.sessions[p[1]].files = B.sessions[p[2]].files)
  IN per \o Fails(<< <<"P:C15:transparent", transparent>>, <<"P:C15:session-same-output", same>> >>)
Init == i \in 1..Len(Log) /\ done = FALSE
Next == ~done /\ done' = TRUE /\ UNCHANGED i
        /\ LET f == Judge(Log[i]) IN PrintT(ToJson([tid |-> Log[i].tid, fails |-> [k \in 1..Len(f) |-> <<1, f[k]>>], n |-> Len(Log[i].sessions)]))
=============================================================================
