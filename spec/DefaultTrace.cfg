INIT Init
NEXT Next
CHECK_DEADLOCK FALSE
