------------------------------ MODULE MapTrace ------------------------------
(***************************************************************************)
(* Trace validation for C03: point access behaves like a map from points   *)
(* to values.  The oracle is the map view Content(.) of the spec state:    *)
(* reads return the map's value (or the default), never change anything;   *)
(* references create exactly the missing path and alias the stored box;    *)
(* writes through them change exactly one point of the map.                *)
(***************************************************************************)
EXTENDS FTStore, Json, IOUtils

Log == ndJsonDeserialize(IOEnv.TRACE_FILE)

VARIABLES i, l, st, fails, dead, last     \* last: previous full projection (ids and rank lists included)
vars == <<i, l, st, fails, dead, last>>
B == Log[i]

Good(root, depth) == NoForeign(root) /\ ParallelLists(root) /\ SortedUnique(root) /\ DepthIs(root, depth)
MapGet(m, pt) == IF \E x \in m : x[1] = pt THEN (CHOOSE x \in m : x[1] = pt)[2] ELSE 0
Override(m, pt, v) == {x \in m : x[1] # pt} \cup (IF v = 0 THEN {} ELSE {<<pt, v>>})
Prefixes(pt) == {SubSeq(pt, 1, k) : k \in 1..Len(pt)}
IsPrefix(p, q) == Len(p) <= Len(q) /\ SubSeq(q, 1, Len(p)) = p

RECURSIVE IdAt(_, _)
IdAt(p, path) == IF path = <<>> THEN p.id
                 ELSE IF p.k = "F" /\ Has(p.e, Head(path)) THEN IdAt(Get(p.e, Head(path)), Tail(path)) ELSE -1

Init == /\ i \in 1..Len(Log) /\ l = 0
        /\ LET BB == Log[i] good == Good(BB.init0.root, BB.depth)
           IN /\ st = IF good THEN Abs(BB.init0.root) ELSE Abs(BB.init)
              /\ dead = ~good /\ fails = <<>> /\ last = BB.init0

Judge(ev) ==
  LET a    == ev.act
      root == ev.post.root
      ok   == Good(root, B.depth)
      post == Abs(root)
      m0   == Content(st, 0)
      m1   == Content(post, 0)
      pure == <<"P:C03:read-pure", ev.post = last>>
  IN IF ~ok THEN <<"P:C03:wellformed-after-access">>
     ELSE IF ev.exc # "ok" THEN <<"P:C03:no-exception">>
     ELSE CASE a.op = "get" ->
            LET f    == FiberAt(st, a.path)
                sub  == AtPath(f, a.pt)
                full == Len(a.path) + Len(a.pt) = B.depth
                expd == IF sub.k # "N" THEN sub
                        ELSE IF a.mode = "alloc" THEN (IF full THEN Leaf(0) ELSE Fib(<<>>)) ELSE IF a.mode = "dflt0" THEN Leaf(0) ELSE Leaf(7)
            IN Fails(<< pure,
                 <<"P:C03:read-value", expd.k = "L" => (ev.res.k = "L" /\ ev.res.v = expd.v)>>,
                 <<"P:C03:prefix-subfiber", expd.k = "F" => (ev.res.k = "F" /\ NoForeign(ev.res) /\ Content(Abs(ev.res), 0) = Content(expd, 0))>> >>)
       [] a.op = "ref" ->
            Fails(<< <<"P:C03:ref-creates-path", Stored(post) = Stored(st) \cup Prefixes(a.pt)>>,
                     <<"P:C03:ref-frame", m1 = m0>>,
                     <<"P:C03:ref-aliases", ev.resid = IdAt(root, a.pt)>>,
                     <<"S:post-conform", post = Apply(st, B.depth, a).tree>> >>)
       [] a.op = "hwrite" /\ B.steps[a.h].resid # IdAt(last.root, a.pt) ->
            \* the handle is stale: a fiber assignment / clear since step a.h replaced the payload object it referred to.  The property speaks
            \* about handles that alias the STORED payload; a write through a stale one must simply leave the tree alone.
            Fails(<< <<"S:stale-handle-frame", m1 = m0>> >>)
       [] a.op = "poswrite" ->
            \* an in-place update through a position (f[p] += v) is an update of the STORED payload: the value changes, the box does not, so a handle
            \* obtained earlier at the point keeps aliasing it
            Fails(<< <<"P:C03:write-visible", m1 = Override(m0, a.pt, WriteVal(a.kind, MapGet(m0, a.pt), a.v))>>,
                     <<"P:C03:ref-creates-path", Stored(post) = Stored(st) \cup Prefixes(a.pt)>>,
                     <<"P:C03:alias-survives-inplace", IdAt(last.root, a.pt) # -1 => IdAt(root, a.pt) = IdAt(last.root, a.pt)>>,
                     <<"S:post-conform", post = Apply(st, B.depth, a).tree>> >>)
       [] a.op \in {"write", "hwrite"} ->
            Fails(<< <<"P:C03:write-visible", m1 = Override(m0, a.pt, WriteVal(a.kind, MapGet(m0, a.pt), a.v))>>,
                     <<"P:C03:ref-creates-path", Stored(post) = Stored(st) \cup Prefixes(a.pt)>>,
                     <<"S:post-conform", post = Apply(st, B.depth, a).tree>> >>)
       [] a.op = "fassign" ->
            Fails(<< <<"P:C03:assign-visible", Content(FiberAt(post, a.path), 0) = Content(Fib(a.other), 0)>>,
                     <<"P:C03:ref-frame", {x \in m1 : ~IsPrefix(a.path, x[1])} = {x \in m0 : ~IsPrefix(a.path, x[1])}>> >>)
       [] a.op = "getpos" ->
            LET e == FiberAt(st, a.path).e
            IN Fails(<< pure, <<"P:C03:position", ev.res = (IF Has(e, a.c) THEN IdxOf(e, a.c) - 1 ELSE -1)>> >>)
       [] a.op = "getposref" ->
            LET e == FiberAt(st, a.path).e
            IN Fails(<< <<"P:C03:position", ev.res = Pos(e, a.c)>>,
                        <<"P:C03:ref-creates-path", Stored(post) = Stored(st) \cup {Append(a.path, a.c)}>>,
                        <<"P:C03:ref-frame", m1 = m0>> >>)
       [] OTHER -> <<>>

Next == /\ l < Len(B.steps) /\ ~dead
        /\ LET ev == B.steps[l + 1]
               en == Enabled(st, B.depth, ev.act)
               f  == IF en THEN Judge(ev) ELSE <<"S:precondition">>
           IN /\ fails' = fails \o [k \in 1..Len(f) |-> <<l + 1, f[k]>>]
              /\ dead' = ~Good(ev.post.root, B.depth)
              /\ st' = IF dead' THEN st ELSE Abs(ev.post.root)
              /\ last' = ev.post
        /\ l' = l + 1 /\ UNCHANGED i

Done == (l = Len(B.steps) \/ dead) => PrintT(ToJson([tid |-> B.tid, fails |-> fails, n |-> l]))
=============================================================================
