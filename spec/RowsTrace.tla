------------------------------ MODULE RowsTrace ------------------------------
(***************************************************************************)
(* Trace validation for C16: the CSV traces written during collection are  *)
(* literally traces - each file of one (rank, type) is consumed row by row *)
(* against the loop-nest machine (FTKernel) and the two-finger machine     *)
(* (FTCoiter) instantiated with the logged operands.                       *)
(***************************************************************************)
EXTENDS FTKernel, FTCoiter, Json, IOUtils
Log == ndJsonDeserialize(IOEnv.TRACE_FILE)
VARIABLES i, done
vars == <<i, done>>
RECURSIVE Abs(_)
Abs(p) == IF p.k = "F" THEN Fib([k \in 1..Len(p.e) |-> <<p.e[k][1], Abs(p.e[k][2])>>])
          ELSE IF p.k = "L" THEN Leaf(p.v) ELSE [k |-> "X"]
OpsFrom(trees, names) == [t \in names |-> Content(Abs(trees[t]), 0)]

Upper(v) == CASE v = "k" -> "K" [] v = "m" -> "M" [] v = "n" -> "N" [] v = "k1" -> "K.1" [] v = "k0" -> "K.0" [] v = "m1" -> "M.1" [] v = "m0" -> "M.0"
              [] v = "n1" -> "N.1" [] v = "n0" -> "N.0" [] OTHER -> v
Header(order, L) == [k \in 1..L |-> Upper(order[k]) \o "_pos"] \o [k \in 1..L |-> Upper(order[k])] \o <<"fiber_pos">>
RowStamp(r, L) == SubSeq(r, 1, L)
RowPoint(r, L) == SubSeq(r, L + 1, 2 * L)
RowPos(r, L) == r[2 * L + 1]
RECURSIVE LexLeq(_, _)
LexLeq(a, b) == IF a = <<>> THEN TRUE ELSE IF Head(a) < Head(b) THEN TRUE ELSE IF Head(a) > Head(b) THEN FALSE ELSE LexLeq(Tail(a), Tail(b))
WellShaped(rows, L) == \A k \in 1..Len(rows) : Len(rows[k]) = 2 * L + 1
StampsSorted(rows, L, strict) == \A k \in 1..(Len(rows) - 1) : LexLeq(RowStamp(rows[k], L), RowStamp(rows[k + 1], L)) /\ (strict => RowStamp(rows[k], L) # RowStamp(rows[k + 1], L))

\* the fiber of factor f (a tree) reached by the coordinates the enclosing loops fixed for f's leading indices
FactorFiber(s, f, asg) ==
    LET tr == Abs(s.ops1[f.t])
        pre == SelectSeq(f.ix, LAMBDA v : v \in DOMAIN asg)
    IN AtPath(tr, [k \in 1..Len(pre) |-> asg[pre[k]]])
AsgOf(order, pt) == [k \in 1..Len(pt) |-> pt[k]]            \* helper: positions; converted below
AsgFun(order, pt) == [v \in {order[k] : k \in 1..Len(pt)} |-> pt[PosIn(order, v)]]

JudgeFile(s, F, mach) ==
  LET L     == F.level
      order == s.order
      v     == order[L]
      part  == SelectSeq(s.expr1.facs, LAMBDA f : v \in SeqToSet(f.ix))
      isOut == v \in SeqToSet(s.expr1.out)
      rows  == F.rows
      exp   == mach.rows[L]
      shape == WellShaped(rows, L)
      \* enclosing iterations, in execution order
      encl  == IF L = 1 THEN << <<>> >> ELSE [k \in 1..Len(mach.rows[L - 1]) |-> mach.rows[L - 1][k].point]
      posname == "P:C16:pos-" \o F.type
  IN IF F.exists = 0 \/ (F.header = <<>> /\ rows = <<>>)            \* no trace was emitted for this (rank, type): legal iff nothing was to be traced
     THEN (IF F.type = "iter" /\ Len(exp) > 0 THEN <<"P:C16:one-row-per-access">> ELSE <<>>)
     ELSE IF F.type = "iter" THEN
        Fails(<<
          <<"P:C16:header", F.header = Header(order, L)>>,
          <<"P:C16:one-row-per-access", shape /\ Len(rows) = Len(exp)>>,
          <<"P:C16:point", (shape /\ Len(rows) = Len(exp)) => \A k \in 1..Len(rows) : RowPoint(rows[k], L) = exp[k].point>>,
          <<"P:C16:iter-strict", shape => StampsSorted(rows, L, TRUE)>>,
          \* position: index of the element in the fiber that is iterated - the stored position for an eager operand fiber, the enumeration index of a lazy one
          <<posname, (shape /\ Len(rows) = Len(exp)) => \A k \in 1..Len(rows) :
                IF Len(part) = 1 /\ ~isOut
                THEN LET fb == FactorFiber(s, part[1], AsgFun(order, SubSeq(exp[k].point, 1, L - 1))) IN RowPos(rows[k], L) = Pos(fb.e, exp[k].point[L])
                ELSE RowPos(rows[k], L) = exp[k].pos>> >>)
     ELSE IF F.type \in {"intersect_0", "intersect_1"} /\ Len(part) = 2 /\ ~isOut /\ s.style = "tf" THEN
        LET q == IF F.type = "intersect_0" THEN 1 ELSE 2
            \* per enclosing iteration: the elements of operand q that the two-finger merge touches (consumed ones and the unconsumed head at exhaustion)
            touched(pt) == LET asg == AsgFun(order, pt)
                               fa == FactorFiber(s, part[1], asg)  fb == FactorFiber(s, part[2], asg)
                               PA == CoordsOf(Present(fa.e, 0))   PB == CoordsOf(Present(fb.e, 0))
                               r  == TwoFinger("and", PA, PB)
                               me == IF q = 1 THEN fa ELSE fb
                               P  == IF q = 1 THEN PA ELSE PB
                               n  == Min(IF q = 1 THEN r.ia ELSE r.ib, Len(P))
                           IN [k \in 1..n |-> <<Append(pt, P[k]), Pos(me.e, P[k])>>]
            RECURSIVE Cat(_)
            Cat(ss) == IF ss = <<>> THEN <<>> ELSE Head(ss) \o Cat(Tail(ss))
            expT == Cat([k \in 1..Len(encl) |-> touched(encl[k])])
        IN Fails(<<
          <<"P:C16:header", F.header = Header(order, L)>>,
          <<"P:C16:one-row-per-access", shape /\ Len(rows) = Len(expT)>>,
          <<"P:C16:point", (shape /\ Len(rows) = Len(expT)) => \A k \in 1..Len(rows) : RowPoint(rows[k], L) = expT[k][1]>>,
          <<"P:C16:stamp-sorted", shape => StampsSorted(rows, L, FALSE)>>,
          <<posname, (shape /\ Len(rows) = Len(expT)) => \A k \in 1..Len(rows) : RowPos(rows[k], L) = expT[k][2]>> >>)
     ELSE IF F.type = "intersect_1" /\ Len(part) = 3 /\ ~isOut /\ s.style = "tf" THEN
        \* three operands: Fiber.intersection(a, b, c) is (a & b) & c - the OUTER two-finger merge takes labels 0 and 1, so intersect_1 holds the accesses to
        \* the LAST operand, merged against the coordinates common to the first two
        LET touched3(pt) == LET asg == AsgFun(order, pt)
                                fa == FactorFiber(s, part[1], asg)  fb == FactorFiber(s, part[2], asg)  fc == FactorFiber(s, part[3], asg)
                                PA == CoordsOf(Present(fa.e, 0))   PB == CoordsOf(Present(fb.e, 0))   PC == CoordsOf(Present(fc.e, 0))
                                PAB == SelectSeq(PA, LAMBDA c : \E k \in 1..Len(PB) : PB[k] = c)
                                r  == TwoFinger("and", PAB, PC)
                                n  == Min(r.ib, Len(PC))
                            IN [k \in 1..n |-> <<Append(pt, PC[k]), Pos(fc.e, PC[k])>>]
            RECURSIVE Cat3(_)
            Cat3(ss) == IF ss = <<>> THEN <<>> ELSE Head(ss) \o Cat3(Tail(ss))
            expT == Cat3([k \in 1..Len(encl) |-> touched3(encl[k])])
        IN Fails(<<
          <<"P:C16:header", F.header = Header(order, L)>>,
          <<"P:C16:one-row-per-access", shape /\ Len(rows) = Len(expT)>>,
          <<"P:C16:point", (shape /\ Len(rows) = Len(expT)) => \A k \in 1..Len(rows) : RowPoint(rows[k], L) = expT[k][1]>>,
          <<"P:C16:stamp-sorted", shape => StampsSorted(rows, L, FALSE)>>,
          <<posname, (shape /\ Len(rows) = Len(expT)) => \A k \in 1..Len(rows) : RowPos(rows[k], L) = expT[k][2]>> >>)
     ELSE IF F.type = "populate_1" /\ isOut /\ Len(part) = 1 THEN
        \* source side of a populate driven by one operand fiber: one row per presented source element, addressed by its position in the source fiber
        LET RECURSIVE Cat2(_)
            Cat2(ss) == IF ss = <<>> THEN <<>> ELSE Head(ss) \o Cat2(Tail(ss))
            src(pt) == LET fb == FactorFiber(s, part[1], AsgFun(order, pt))  P == CoordsOf(Present(fb.e, 0)) IN [k \in 1..Len(P) |-> <<Append(pt, P[k]), Pos(fb.e, P[k])>>]
            expS == Cat2([k \in 1..Len(encl) |-> src(encl[k])])
        IN Fails(<<
          <<"P:C16:header", F.header = Header(order, L)>>,
          <<"P:C16:one-row-per-access", shape /\ Len(rows) = Len(expS)>>,
          <<"P:C16:point", (shape /\ Len(rows) = Len(expS)) => \A k \in 1..Len(rows) : RowPoint(rows[k], L) = expS[k][1]>>,
          <<"P:C16:stamp-sorted", shape => StampsSorted(rows, L, FALSE)>>,
          <<posname, (shape /\ Len(rows) = Len(expS)) => \A k \in 1..Len(rows) : RowPos(rows[k], L) = expS[k][2]>> >>)
     ELSE IF F.type \in {"union_2", "union_3"} /\ s.plus = 1 THEN
        \* z_m << (a_m | b_m): the populate takes labels 0 and 1, the union's operands 2 (left) and 3 (right).  One row per element the union READS from
        \* that operand (its non-empty elements, ascending), stamped with the iteration that delivered it, addressed by its index in the operand fiber
        LET fb   == Abs(s.ops1[IF F.type = "union_2" THEN "A" ELSE "B"])
            P    == CoordsOf(Present(fb.e, 0))
            itf  == SelectSeq(s.files, LAMBDA G : G.rank = F.rank /\ G.type = "iter" /\ G.exists = 1)
            itr  == IF itf = <<>> THEN <<>> ELSE itf[1].rows
        IN Fails(<<
          <<"P:C16:header", F.header = Header(order, L)>>,
          <<"P:C16:one-row-per-access", shape /\ Len(rows) = Len(P)>>,
          <<"P:C16:point", (shape /\ Len(rows) = Len(P)) => \A k \in 1..Len(rows) : RowPoint(rows[k], L) = <<P[k]>> >>,
          <<"P:C16:iter-strict", shape => StampsSorted(rows, L, TRUE)>>,
          \* the stamp is the stamp of the loop iteration that delivered the coordinate (the iter row with the same point)
          <<"S:union-stamp", (shape /\ Len(rows) = Len(P) /\ itr # <<>>) => \A k \in 1..Len(rows) :
                \E j \in 1..Len(itr) : Len(itr[j]) = 2 * L + 1 /\ RowPoint(itr[j], L) = RowPoint(rows[k], L) /\ RowStamp(itr[j], L) = RowStamp(rows[k], L)>>,
          <<posname, (shape /\ Len(rows) = Len(P)) => \A k \in 1..Len(rows) : RowPos(rows[k], L) = Pos(fb.e, P[k])>> >>)
     ELSE IF F.type = "populate_1" /\ isOut /\ s.plus = 1 THEN
        \* the source of the populate is the (lazy) union: one row per delivered coordinate, addressed by its enumeration index
        Fails(<<
          <<"P:C16:header", F.header = Header(order, L)>>,
          <<"P:C16:one-row-per-access", shape /\ Len(rows) = Len(exp)>>,
          <<"P:C16:point", (shape /\ Len(rows) = Len(exp)) => \A k \in 1..Len(rows) : RowPoint(rows[k], L) = exp[k].point>>,
          <<"P:C16:stamp-sorted", shape => StampsSorted(rows, L, FALSE)>>,
          <<posname, (shape /\ Len(rows) = Len(exp)) => \A k \in 1..Len(rows) : RowPos(rows[k], L) = exp[k].pos>> >>)
     ELSE IF F.type \in {"populate_write_0", "populate_read_0"} /\ isOut THEN
        \* destination side: stamp-ordered and well-formed (addresses of an inserting populate are staging addresses)
        Fails(<< <<"P:C16:header", F.header = Header(order, L)>>,
                 <<"P:C16:stamp-sorted", shape /\ StampsSorted(rows, L, FALSE)>>,
                 \* at least one write row per body execution that wrote something (more when elements are moved by an insertion)
                 <<"P:C16:staging-complete", (shape /\ F.type = "populate_write_0") => Len(rows) >= Cardinality({k \in 1..Len(mach.wrote[L]) : mach.wrote[L][k]})>> >>)
     ELSE <<>>

JudgeSession(s) ==
  LET names == {s.expr1.facs[k].t : k \in 1..Len(s.expr1.facs)}
      mach  == IF s.plus = 1 THEN RunAdd(OpsFrom(s.ops1, names)) ELSE Run(s.expr1, OpsFrom(s.ops1, names), s.order)
      RECURSIVE Cat(_)
      Cat(ss) == IF ss = <<>> THEN <<>> ELSE Head(ss) \o Cat(Tail(ss))
  IN IF s.abort # 0 \/ s.collect = 0 \/ s.exc # "ok" \/ s.plus = 2 THEN <<>>
     ELSE Cat([k \in 1..Len(s.files) |-> IF s.files[k].level > 0 THEN JudgeFile(s, s.files[k], mach) ELSE <<>>])
Completed(s) == s.exc = "ok" /\ s.abort = 0 /\ s.collect = 1
Judge(B) ==
  LET n == Len(B.sessions)
      RECURSIVE Cat(_)
      Cat(ss) == IF ss = <<>> THEN <<>> ELSE Head(ss) \o Cat(Tail(ss))
      pairs == {<<a, b>> \in (1..n) \X (1..n) : a < b /\ B.sessions[a].kid = B.sessions[b].kid /\ Completed(B.sessions[a]) /\ Completed(B.sessions[b])
                                               /\ B.sessions[a].traces = B.sessions[b].traces}
  IN Cat([k \in 1..n |-> JudgeSession(B.sessions[k])])
     \o Fails(<< <<"P:C16:flush-independent", \A p \in pairs : B.sessions[p[1]].files = B.sessions[p[2]].files>>,
                 <<"P:C16:consumable-same", \A k \in 1..n : (Completed(B.sessions[k]) /\ B.sessions[k].consumed # <<>>) =>
                       \A c \in 1..Len(B.sessions[k].consumed) : B.sessions[k].consumed[c].rows = B.sessions[k].consumed[c].filerows>> >>)
Init == i \in 1..Len(Log) /\ done = FALSE
Next == ~done /\ done' = TRUE /\ UNCHANGED i
        /\ LET f == Judge(Log[i]) IN PrintT(ToJson([tid |-> Log[i].tid, fails |-> [k \in 1..Len(f) |-> <<1, f[k]>>], n |-> Len(Log[i].sessions)]))
=============================================================================
