------------------------------ MODULE FTAlias -------------------------------
(***************************************************************************)
(* Value-returning operations never disturb or alias their operands (C10). *)
(*                                                                         *)
(* Heap model: an object is the set of identities of its mutable parts     *)
(* (fibers, payload boxes, ranks, attribute records); the heap maps each   *)
(* identity to a value; the abstract value of an object is the heap        *)
(* restricted to its parts.  A mutation through an object changes one of   *)
(* its parts.  The design-level theorem (checked by TLC in MC_Alias):      *)
(*   two objects are independent under EVERY future mutation sequence      *)
(*   iff their identity sets are disjoint.                                 *)
(* This is what turns the finite check "the identity sets recorded right   *)
(* after the call are disjoint" into the property's "later mutation of     *)
(* either side is invisible to the other".                                 *)
(***************************************************************************)
EXTENDS FTCore
AbsOf(heap, obj) == [c \in obj |-> heap[c]]
Disjoint(a, b) == a \cap b = {}
=============================================================================
