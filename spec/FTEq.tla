-------------------------------- MODULE FTEq --------------------------------
(***************************************************************************)
(* Equality, emptiness, counting and pruning depend on content only (C12). *)
(* Declarative: comparisons of the map view Content(.).                    *)
(* Operational: the recursive union-mask algorithm of Fiber.__eq__.        *)
(***************************************************************************)
EXTENDS FTCore

EqSpec(a, b, d)    == Content(a, d) = Content(b, d)
EmptySpec(a, d)    == Content(a, d) = {}
CountSpec(a, d)    == Cardinality(Content(a, d))
\* canonical: no explicit default and no empty sub-fiber anywhere
RECURSIVE Canonical(_, _)
Canonical(p, d) == IF p.k = "L" THEN p.v # d
                   ELSE p.k = "F" /\ \A i \in 1..Len(p.e) : ~IsEmptyP(p.e[i][2], d) /\ Canonical(p.e[i][2], d)
RECURSIVE PrunedTree(_, _)
PrunedTree(p, d) == IF p.k # "F" THEN p
                    ELSE LET pe == Present(p.e, d) IN Fib([i \in 1..Len(pe) |-> <<pe[i][1], PrunedTree(pe[i][2], d)>>])

\* Fiber.__eq__: walk the union of the presented elements; any one-sided coordinate or unequal payload => False
RECURSIVE EqOp(_, _, _)
EqOp(a, b, d) ==
    IF a.k = "L" \/ b.k = "L" THEN (a.k = "L" /\ b.k = "L" /\ a.v = b.v)
    ELSE LET pa == Present(a.e, d)  pb == Present(b.e, d)
         IN /\ CoordSet(pa) = CoordSet(pb)
            /\ \A i \in 1..Len(pa) : EqOp(pa[i][2], Get(pb, pa[i][1]), d)
=============================================================================
