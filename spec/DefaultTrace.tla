----------------------------- MODULE DefaultTrace ----------------------------
(***************************************************************************)
(* C03 for any leaf default (zero, non-zero, fractional): the tensor is a  *)
(* map from points to values with default d.  Multi-step: the spec state   *)
(* (the map) is advanced by every logged call and compared with the        *)
(* implementation's stored content after every call.  Values are doubled   *)
(* integers.                                                               *)
(*   get      read with allocation: the value written there, else d        *)
(*   getdflt  read without allocation and a caller default d + 3           *)
(*   ref      creates the path, writes nothing                             *)
(*   write    fresh reference then <<= / += / *=                           *)
(*   hwrite   the same through the handle obtained at step h               *)
(***************************************************************************)
EXTENDS FTCore, Json, IOUtils, TLC
Log == ndJsonDeserialize(IOEnv.TRACE_FILE)
VARIABLES i, done
vars == <<i, done>>
MGet(m, pt, d) == IF \E x \in m : x[1] = pt THEN (CHOOSE x \in m : x[1] = pt)[2] ELSE d
MPut(m, pt, v) == {x \in m : x[1] # pt} \cup {<<pt, v>>}
\* doubled arithmetic: (a/2) * (b/2) = (a*b/4): only products that stay multiples of 1/2 are generated
WVal(kind, old2, w2) == CASE kind = "assign" -> w2 [] kind = "add" -> old2 + w2 [] OTHER -> (old2 * w2) \div 2
NonDefault(S, d) == {x \in S : x[2] # d}
RECURSIVE Walk(_, _, _, _, _)
\* m: points written so far (doubled values); acc: failing clauses
Walk(B, k, m, hpts, acc) ==
  IF k > Len(B.steps) THEN acc
  ELSE LET s == B.steps[k]  d == B.dflt2
           stored == {<<x[1], x[2]>> : x \in {B.steps[k].content[j] : j \in 1..Len(B.steps[k].content)}}
           frame(m2) == <<"P:C03:ref-frame", NonDefault(stored, d) = NonDefault(m2, d) /\ s.tdflt2 = d>>
       IN IF s.exc # "ok" THEN Walk(B, k + 1, m, hpts, Append(acc, <<k, "P:C03:no-exception">>))
          ELSE IF s.op = "get" THEN
               Walk(B, k + 1, m, hpts, acc \o [q \in 1..Len(Fails(<< <<"P:C03:read-value", s.res2 = MGet(m, s.pt, d)>>, frame(m)>>)) |-> <<k, Fails(<< <<"P:C03:read-value", s.res2 = MGet(m, s.pt, d)>>, frame(m)>>)[q]>>])
          ELSE IF s.op = "getdflt" THEN
               LET exp == IF \E x \in stored : x[1] = s.pt THEN MGet(m, s.pt, d) ELSE d + 6
                   f == Fails(<< <<"P:C03:read-value", s.res2 = exp>>, frame(m)>>)
               IN Walk(B, k + 1, m, hpts, acc \o [q \in 1..Len(f) |-> <<k, f[q]>>])
          ELSE IF s.op = "ref" THEN
               LET f == Fails(<< <<"P:C03:read-value", s.res2 = MGet(m, s.pt, d)>>, frame(m)>>)
               IN Walk(B, k + 1, m, hpts @@ (k :> s.pt), acc \o [q \in 1..Len(f) |-> <<k, f[q]>>])
          ELSE LET pt == IF s.op = "hwrite" THEN hpts[s.h] ELSE s.pt
                   m2 == MPut(m, pt, WVal(s.kind, MGet(m, pt, d), s.w2))
                   f  == Fails(<< <<"P:C03:write-visible", \E x \in stored : x[1] = pt /\ x[2] = MGet(m2, pt, d)>>, frame(m2)>>)
               IN Walk(B, k + 1, m2, hpts, acc \o [q \in 1..Len(f) |-> <<k, f[q]>>])
Judge(B) == IF B.exc # "ok" THEN << <<0, "P:C03:no-exception">> >> ELSE Walk(B, 1, {}, <<>>, <<>>)
Init == i \in 1..Len(Log) /\ done = FALSE
Next == ~done /\ done' = TRUE /\ UNCHANGED i
        /\ LET f == Judge(Log[i]) IN PrintT(ToJson([tid |-> Log[i].tid, fails |-> f, n |-> Len(Log[i].steps)]))
=============================================================================
