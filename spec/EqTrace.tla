------------------------------- MODULE EqTrace -------------------------------
(* trace validation for C12: recorded answers of ==, !=, isEmpty, countValues, nonEmpty on the implementation *)
EXTENDS FTEq, Json, IOUtils
Log == ndJsonDeserialize(IOEnv.TRACE_FILE)
VARIABLES i, done
vars == <<i, done>>
RECURSIVE Abs(_)
Abs(p) == IF p.k = "F" THEN Fib([k \in 1..Len(p.e) |-> <<p.e[k][1], Abs(p.e[k][2])>>])
          ELSE IF p.k = "L" THEN Leaf(p.v) ELSE [k |-> "X"]
Judge(B) ==
  LET a == Abs(B.a)  b == Abs(B.b)  c == Abs(B.c)  d == B.d
      same == EqSpec(a, b, d) /\ (B.tensors = 1 => B.sameids = 1)
  IN IF B.exc # "ok" THEN <<"P:C12:no-exception">>
     ELSE Fails(<<
       <<"P:C12:eq-iff-content", B.eq_ab = same>>,
       <<"P:C12:symmetric", B.eq_ba = B.eq_ab>>,
       <<"P:C12:ne-negates", B.ne_ab = ~B.eq_ab>>,
       <<"P:C12:reflexive", B.eq_aa>>,
       <<"P:C12:copy-equal", B.eq_copy>>,
       <<"P:C12:transitive", (B.eq_ab /\ B.eq_bc) => B.eq_ac>>,
       <<"P:C12:eq-iff-content", (B.eq_bc = EqSpec(b, c, d)) /\ (B.eq_ac = (EqSpec(a, c, d) /\ (B.tensors = 1 => B.sameids = 1)))>>,
       <<"P:C12:isempty", B.empty_a = EmptySpec(a, d)>>,
       <<"P:C12:count", B.count_a = CountSpec(a, d)>>,
       \* countValues(recursive=False) of the root fiber: its elements that hold content (an element holding an empty or all-default sub-tree holds none)
       <<"P:C12:count-toplevel", B.count_nr = Cardinality({x[1][1] : x \in Content(a, d)})>>,
       <<"P:C12:nonempty-canonical", NoForeign(B.ne_a) /\ Canonical(Abs(B.ne_a), d) /\ Content(Abs(B.ne_a), d) = Content(a, d)>>,
       <<"P:C12:nonempty-equal", B.eq_ne>>,
       <<"P:C12:operands-unmodified", B.post = B.pre>> >>)
Init == i \in 1..Len(Log) /\ done = FALSE
Next == ~done /\ done' = TRUE /\ UNCHANGED i
        /\ LET f == Judge(Log[i]) IN PrintT(ToJson([tid |-> Log[i].tid, fails |-> [k \in 1..Len(f) |-> <<1, f[k]>>], n |-> 1]))
=============================================================================
