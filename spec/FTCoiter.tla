------------------------------ MODULE FTCoiter ------------------------------
(***************************************************************************)
(* Co-iteration operators  a & b, a | b, a ^ b, a - b, n-ary intersection  *)
(* and union, leader-follower intersection, prefix match of tuple coords.  *)
(*                                                                         *)
(* Declarative: the coordinate-set truth tables over what each operand     *)
(* PRESENTS (non-empty elements of a compressed rank; every coordinate of  *)
(* the active range of a rank declared uncompressed).                      *)
(* Operational: the two-finger merge machine of iterators.py               *)
(* (Match / AdvA / AdvB / TailA / TailB), also used by FTCost (C19).       *)
(***************************************************************************)
EXTENDS FTCore

\* coordinates an operand presents.  e: element list, dflt: leaf default, fmt: "C" / "U", act: <<lo, hi>>
PresentCoords(e, dflt, fmt, act) ==
    IF fmt = "U" THEN {c \in act[1]..(act[2] - 1) : TRUE}
    ELSE {e[i][1] : i \in {j \in 1..Len(e) : ~IsEmptyP(e[j][2], dflt)}}

OpSet(op, A, B) == CASE op = "and" -> A \cap B [] op = "or" -> A \cup B
                     [] op = "xor" -> (A \cup B) \ (A \cap B) [] op = "sub" -> A \ B
MaskOf(A, B, c) == IF c \in A /\ c \in B THEN "AB" ELSE IF c \in A THEN "A" ELSE "B"
\* expected yields: ascending <<coordinate, mask>>
ExpYields(op, A, B) == LET s == SetToSortedSeq(OpSet(op, A, B)) IN [i \in 1..Len(s) |-> <<s[i], MaskOf(A, B, s[i])>>]

\* n-ary
InterN(As) == LET S == {c \in UNION SeqToSet(As) : \A k \in 1..Len(As) : c \in As[k]} IN SetToSortedSeq(S)
UnionN(As) == SetToSortedSeq(UNION SeqToSet(As))
Letters == <<"A", "B", "C", "D">>
RECURSIVE MaskN(_, _, _)
MaskN(As, c, k) == IF k > Len(As) THEN "" ELSE (IF c \in As[k] THEN Letters[k] ELSE "") \o MaskN(As, c, k + 1)

(***************************************************************************)
(* The two-finger machine as a function: runs over the presented lists PA, *)
(* PB (sequences of coordinates) and returns the yields and the number of  *)
(* comparison steps taken while both sides still have a head.              *)
(***************************************************************************)
RECURSIVE TF(_, _, _, _, _, _, _)
TF(op, PA, PB, ia, ib, out, steps) ==
    LET hasA == ia <= Len(PA)  hasB == ib <= Len(PB) IN
    IF hasA /\ hasB THEN
        IF PA[ia] = PB[ib] THEN TF(op, PA, PB, ia + 1, ib + 1, IF op \in {"and", "or"} THEN Append(out, <<PA[ia], "AB">>) ELSE out, steps + 1)
        ELSE IF PA[ia] < PB[ib] THEN TF(op, PA, PB, ia + 1, ib, IF op \in {"or", "xor", "sub"} THEN Append(out, <<PA[ia], "A">>) ELSE out, steps + 1)
        ELSE TF(op, PA, PB, ia, ib + 1, IF op \in {"or", "xor"} THEN Append(out, <<PB[ib], "B">>) ELSE out, steps + 1)
    ELSE IF hasA /\ op \in {"or", "xor", "sub"} THEN TF(op, PA, PB, ia + 1, ib, Append(out, <<PA[ia], "A">>), steps)
    ELSE IF hasB /\ op \in {"or", "xor"} THEN TF(op, PA, PB, ia, ib + 1, Append(out, <<PB[ib], "B">>), steps)
    ELSE [out |-> out, steps |-> steps, ia |-> ia, ib |-> ib]          \* ia / ib: the fingers when the merge stops
TwoFinger(op, PA, PB) == TF(op, PA, PB, 1, 1, <<>>, 0)
=============================================================================
