----------------------------- MODULE BufferTrace -----------------------------
(* trace validation for C17 (buffet closed form, derived bounds, filtering, combination, temporary files); the cache's optimality is searched by CacheSearch.tla *)
EXTENDS FTBuffer, Json, IOUtils
Log == ndJsonDeserialize(IOEnv.TRACE_FILE)
VARIABLES i, done
vars == <<i, done>>
Bind(B) == [mask |-> B.mask, epl |-> B.epl, ev |-> B.evn, shape |-> B.shape, staged |-> (B.staged = 1)]
JudgeBuffet(B) ==
  LET tr == Combine(B.rows_r, B.rows_w)  b == Bind(B)
      fills == BuffetFills(tr, b) * B.line_sz   wbs == BuffetWBs(tr, b) * B.line_sz
  IN Fails([k \in 1..Len(B.res) |-> <<"P:C17:buffet-fills", B.res[k].exc = "ok" /\ B.res[k].read = fills>>]
        \o [k \in 1..Len(B.res) |-> <<IF \E q \in 1..Len(tr) : tr[q].w = 1 /\ tr[q].pos >= B.shape THEN "P:C17:staging-not-written" ELSE "P:C17:buffet-writebacks",
                                       B.res[k].exc = "ok" /\ (B.rows_w # <<>> => B.res[k].write = wbs)>>]
        \o << <<"P:C17:lower-bound", (B.rows_w = <<>>) => \A k \in 1..Len(B.res) : B.res[k].read >= DistinctLines(tr, b) * B.line_sz>>,
              <<"P:C17:upper-bound", \A k \in 1..Len(B.res) : B.res[k].read <= Len(tr) * B.line_sz>>,
              <<"P:C17:tempfiles-removed", B.files_same = 1>> >>)
JudgeCacheLaws(B) ==
  LET tr == Combine(B.rows_r, B.rows_w)  b == Bind(B)
      ro == B.rows_w = <<>>
      op(k) == CacheOp(tr, b, B.res[k].cap \div B.line_sz)
      okall == \A k \in 1..Len(B.res) : B.res[k].exc = "ok"
  IN IF ~okall THEN <<"P:C17:no-exception">> ELSE
  Fails(<< <<"P:C17:lower-bound", ro => \A k \in 1..Len(B.res) : B.res[k].read >= DistinctLines(tr, b) * B.line_sz>>,
           <<"P:C17:upper-bound", \A k \in 1..Len(B.res) : B.res[k].read <= Len(tr) * B.line_sz>>,
           <<"P:C17:monotone-capacity", ro => \A k \in 1..(Len(B.res) - 1) : B.res[k].cap <= B.res[k + 1].cap => B.res[k].read >= B.res[k + 1].read>>,
           \* the charge of the furthest-next-use policy with bypass (FTBuffer.CacheOp; = the optimum on read traces, MC_Cache), also with writes and pinned staging lines
           <<"P:C17:cache-policy-fills", \A k \in 1..Len(B.res) : B.res[k].read = op(k).fills * B.line_sz>>,
           <<IF \E q \in 1..Len(tr) : tr[q].w = 1 /\ tr[q].pos >= B.shape THEN "P:C17:staging-not-written" ELSE "P:C17:cache-policy-writebacks",
             ~ro => \A k \in 1..Len(B.res) : B.res[k].write = op(k).wbs * B.line_sz>>,
           <<"S:cache-overflows", \A k \in 1..Len(B.res) : B.res[k].overflows = op(k).over>>,
           <<"P:C17:tempfiles-removed", B.files_same = 1>> >>)
\* two bindings of one tensor on different loop ranks and with different elements per line (listed inner rank first): the tensor's fills are the sum of the
\* two bindings' fills, each at its own granularity - whatever the order of the binding list
JudgeBuffet2(B) ==
  LET fills(k) == BuffetFills(B.parts[k].rows, [mask |-> B.parts[k].mask, epl |-> B.parts[k].epl, ev |-> B.parts[k].evn, shape |-> B.shape, staged |-> FALSE])
      exp == (fills(1) + fills(2)) * B.line_sz
  IN Fails(<< <<"P:C17:buffet-fills", \A k \in 1..Len(B.res) : B.res[k].exc = "ok" /\ B.res[k].read = exp>>,
              <<"P:C17:tempfiles-removed", B.files_same = 1>> >>)
JudgeFilter(B) == Fails(<< <<"P:C17:filter", B.out_header_ok = 1 /\ B.out_rows = Filter(B.rows_r, B.rows_f)>>, <<"P:C17:tempfiles-removed", B.files_same = 1>> >>)
JudgeCombine(B) == Fails(<< <<"P:C17:combine-stable", B.comb_header_ok = 1 /\ B.comb = Combine(B.rows_r, B.rows_w)>> >>)
Judge(B) == IF B.exc # "ok" THEN <<"P:C17:no-exception">>
            ELSE CASE B.kind = "buffet" -> JudgeBuffet(B) [] B.kind = "cache" -> JudgeCacheLaws(B) [] B.kind = "buffet2" -> JudgeBuffet2(B) [] B.kind = "filter" -> JudgeFilter(B) [] B.kind = "combine" -> JudgeCombine(B)
Init == i \in 1..Len(Log) /\ done = FALSE
Next == ~done /\ done' = TRUE /\ UNCHANGED i
        /\ LET f == Judge(Log[i]) IN PrintT(ToJson([tid |-> Log[i].tid, fails |-> [k \in 1..Len(f) |-> <<1, f[k]>>], n |-> 1]))
=============================================================================
