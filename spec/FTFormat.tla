------------------------------ MODULE FTFormat ------------------------------
(***************************************************************************)
(* Format footprints add up from the tree exactly (C18).                   *)
(* spec: sequence (one record per rank, top to bottom) of                  *)
(*   [fmt, rh, fh, c, p, layout] where -1 / "" mean "field omitted"        *)
(*   (defaults: 0 bits, "C", "contiguous"); root: [h, p] likewise.          *)
(* shapes: declared shape per rank.                                        *)
(***************************************************************************)
EXTENDS FTCore

FillI(x) == IF x = -1 THEN 0 ELSE x
FmtOf(s) == IF s.fmt = "" THEN "C" ELSE s.fmt
FiberBits(s, f, shape) == FillI(s.fh) + (FillI(s.c) + FillI(s.p)) * (IF FmtOf(s) = "C" THEN Len(f.e) ELSE shape)

RECURSIVE FibersAt(_, _)
\* the fibers found at depth d by a raw walk (a sequence, duplicates kept)
FibersAt(p, d) == IF p.k # "F" THEN <<>>
                  ELSE IF d = 0 THEN <<p>>
                  ELSE LET subs == [i \in 1..Len(p.e) |-> FibersAt(p.e[i][2], d - 1)]
                           RECURSIVE Cat(_)
                           Cat(ss) == IF ss = <<>> THEN <<>> ELSE Head(ss) \o Cat(Tail(ss))
                       IN Cat(subs)
RankBits(spec, shapes, root, r) == FillI(spec[r].rh) + SumSeq([k \in 1..Len(FibersAt(root, r - 1)) |-> FiberBits(spec[r], FibersAt(root, r - 1)[k], shapes[r])])
RootBits(rs) == FillI(rs.h) + FillI(rs.p)
TensorBits(spec, rs, shapes, root) == RootBits(rs) + SumSeq([r \in 1..Len(spec) |-> RankBits(spec, shapes, root, r)])

\* sub-tree below a fiber p of rank lvl: through non-empty stored elements of a compressed rank, through every coordinate of the
\* shape of an uncompressed one (absent children count as empty fibers)
RECURSIVE SubBits(_, _, _, _, _)
SubBits(spec, shapes, p, lvl, dflt) ==
    FiberBits(spec[lvl], p, shapes[lvl]) +
    (IF lvl = Len(spec) THEN 0
     ELSE IF FmtOf(spec[lvl]) = "U"
          THEN SumSeq([c \in 1..shapes[lvl] |-> SubBits(spec, shapes, IF Has(p.e, c - 1) THEN Get(p.e, c - 1) ELSE Fib(<<>>), lvl + 1, dflt)])
          ELSE LET pe == Present(p.e, dflt) IN SumSeq([k \in 1..Len(pe) |-> SubBits(spec, shapes, pe[k][2], lvl + 1, dflt)]))
\* the query at a point: a full point is one element of the leaf rank; a partial point the sub-tree of the fiber there (empty if absent)
SubTreeAt(spec, shapes, root, pt, dflt) ==
    IF Len(pt) = Len(spec) THEN FillI(spec[Len(spec)].c) + FillI(spec[Len(spec)].p)
    ELSE LET f == AtPath(root, pt) IN SubBits(spec, shapes, IF f.k = "F" THEN f ELSE Fib(<<>>), Len(pt) + 1, dflt)
FiberAtBits(spec, shapes, root, pt) == LET f == AtPath(root, pt) IN FiberBits(spec[Len(pt) + 1], IF f.k = "F" THEN f ELSE Fib(<<>>), shapes[Len(pt) + 1])
=============================================================================
