----------------------------- MODULE MC_Metrics -----------------------------
(* design level: sessions are isolated - the real registers equal a reference machine restarted at every BeginCollect, for every interleaving of
   finished and aborted sessions over a small alphabet of events *)
EXTENDS FTMetrics
CONSTANTS MAXEV
VARIABLES m, ref, n
vars == <<m, ref, n>>
Ranks == {"K", "M"}
Init == m = Pristine /\ ref = Pristine /\ n = 0
Begin == /\ m' = BeginCollect(m, "p") /\ ref' = BeginCollect(Pristine, "p") /\ n' = n + 1         \* also legal right after an aborted session
Ev(f(_)) == m.collecting /\ m' = f(m) /\ ref' = f(ref) /\ n' = n + 1
Next == /\ n < MAXEV
        /\ \/ Begin
           \/ \E r \in Ranks : Ev(LAMBDA x : RegisterRank(x, r))
           \/ \E r \in Ranks : IndexOf(m.loop_order, r) # 0 /\ Ev(LAMBDA x : IncIter(x, r))
           \/ \E r \in Ranks : IndexOf(m.loop_order, r) # 0 /\ Ev(LAMBDA x : EndIter(x, r))
           \/ \E r \in Ranks : IndexOf(m.loop_order, r) # 0 /\ Ev(LAMBDA x : AddUse(x, r, 1, 0, "iter"))
           \/ \E r \in Ranks : Ev(LAMBDA x : TraceOn(x, r, "iter"))
           \/ Ev(LAMBDA x : IncCount(x, "Compute", "payload_mul", 1))
           \/ (m.collecting /\ m' = EndCollect(m) /\ ref' = EndCollect(ref) /\ n' = n + 1)
Isolated == m.collecting => Visible(m) = Visible(ref)
FreshAfterBegin == (m.collecting /\ m.loop_order = <<>> /\ m.metrics = <<>> /\ m.traces = <<>>) => m = Fresh("p")
=============================================================================
