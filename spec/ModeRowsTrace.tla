--------------------------- MODULE ModeRowsTrace ---------------------------
(***************************************************************************)
(* Trace validation for C16, iteration modes.  One log line = a two-level  *)
(* nest over A[m, k]: the outer loop walks rank M in one traversal mode    *)
(* (FTTraverse: slice of the occupancy, or dense fill of a range), the     *)
(* inner loop iterates the sub-fiber found.  The iter traces of both ranks *)
(* are consumed row by row.                                                *)
(*   - rows of K: one per inner element, stamp <<visit index of the outer  *)
(*     body, index in the inner walk>>, point <<m, k>> - the coordinate    *)
(*     BEING VISITED, whatever the outer mode - and the stored position    *)
(*   - rows of M: one per outer body for the occupancy modes (the dense    *)
(*     modes tick the counter but trace no access)                         *)
(***************************************************************************)
EXTENDS FTTraverse, Json, IOUtils
Log == ndJsonDeserialize(IOEnv.TRACE_FILE)
VARIABLES i, done
vars == <<i, done>>
RECURSIVE Cat(_)
Cat(ss) == IF ss = <<>> THEN <<>> ELSE Head(ss) \o Cat(Tail(ss))
RECURSIVE LexLeq(_, _)
LexLeq(a, b) == IF a = <<>> THEN TRUE ELSE IF Head(a) < Head(b) THEN TRUE ELSE IF Head(a) > Head(b) THEN FALSE ELSE LexLeq(Tail(a), Tail(b))
WellShaped(rows, L) == \A k \in 1..Len(rows) : Len(rows[k]) = 2 * L + 1
StrictlySorted(rows, L) == \A k \in 1..(Len(rows) - 1) : LexLeq(SubSeq(rows[k], 1, L), SubSeq(rows[k + 1], 1, L)) /\ SubSeq(rows[k], 1, L) # SubSeq(rows[k + 1], 1, L)

Dense(B) == B.omode \in {"shape", "rangeshape", "activeshape", "shaperef", "fmtU"}
ActLo(B) == IF B.hasact = 1 THEN B.act[1] ELSE 0
ActHi(B) == IF B.hasact = 1 THEN B.act[2] ELSE B.shape
\* the outer walk: <<coordinate, stored index or 0>>
Outer(B) ==
  LET e == B.a.e IN
  \* (ftrace: Fiber.trace() walks the sub-tree the way a plain loop nest over the occupancy does)
  CASE B.omode \in {"occ", "default", "ftrace"} -> LET ix == SliceIdx(e, 0, 0, 0, 0, 0) IN [k \in 1..Len(ix) |-> <<e[ix[k]][1], ix[k]>>]
    [] B.omode = "range"  -> LET ix == SliceIdx(e, 0, 1, B.lo, 1, B.hi) IN [k \in 1..Len(ix) |-> <<e[ix[k]][1], ix[k]>>]
    [] B.omode = "active" -> LET ix == SliceIdx(e, 0, 1, ActLo(B), 1, ActHi(B)) IN [k \in 1..Len(ix) |-> <<e[ix[k]][1], ix[k]>>]
    [] B.omode \in {"shape", "shaperef"} -> LET cs == FillCoords(0, B.shape, 1) IN [k \in 1..Len(cs) |-> <<cs[k], 0>>]
    [] B.omode = "rangeshape" -> LET cs == FillCoords(B.lo, B.hi, B.step) IN [k \in 1..Len(cs) |-> <<cs[k], 0>>]
    [] OTHER -> LET cs == FillCoords(ActLo(B), ActHi(B), 1) IN [k \in 1..Len(cs) |-> <<cs[k], 0>>]
\* inner walk at outer coordinate m: stored indices of the non-empty elements of the sub-fiber (nothing when m is absent)
InnerE(B, m) == IF Has(B.a.e, m) /\ Get(B.a.e, m).k = "F" THEN Get(B.a.e, m).e ELSE <<>>
ExpVisits(B) == LET os == Outer(B) IN [v \in 1..Len(os) |-> LET e == InnerE(B, os[v][1])  ix == SliceIdx(e, 0, 0, 0, 0, 0) IN <<os[v][1], [k \in 1..Len(ix) |-> e[ix[k]][1]]>>]
ExpK(B) == LET os == Outer(B) IN Cat([v \in 1..Len(os) |-> LET e == InnerE(B, os[v][1])  ix == SliceIdx(e, 0, 0, 0, 0, 0) IN
               [k \in 1..Len(ix) |-> <<v - 1, k - 1, os[v][1], e[ix[k]][1], ix[k] - 1>>]])
ExpM(B) == LET os == Outer(B) IN [v \in 1..Len(os) |-> <<v - 1, os[v][1], os[v][2] - 1>>]

JudgeFile(B, F) ==
  LET none == F.exists = 0 \/ (F.header = <<>> /\ F.rows = <<>>) IN
  IF F.rank = "K" THEN
      LET exp == ExpK(B)  rows == F.rows  shape == WellShaped(rows, 2)  same == shape /\ Len(rows) = Len(exp) IN
      IF none THEN (IF exp # <<>> THEN <<"P:C16:one-row-per-access">> ELSE <<>>) ELSE
      Fails(<< <<"P:C16:header", F.header = <<"M_pos", "K_pos", "M", "K", "fiber_pos">> >>,
               <<"P:C16:one-row-per-access", same>>,
               <<"P:C16:iter-strict", shape => StrictlySorted(rows, 2)>>,
               <<"P:C16:point", same => \A k \in 1..Len(rows) : rows[k][3] = exp[k][3] /\ rows[k][4] = exp[k][4]>>,
               <<"P:C16:pos-iter", same => \A k \in 1..Len(rows) : rows[k][5] = exp[k][5]>>,
               <<"S:stamp-exact", same => \A k \in 1..Len(rows) : rows[k][1] = exp[k][1] /\ rows[k][2] = exp[k][2]>> >>)
  ELSE IF Dense(B) THEN Fails(<< <<"S:dense-mode-traces-no-access", F.rows = <<>> >> >>)
  ELSE
      LET exp == ExpM(B)  rows == F.rows  shape == WellShaped(rows, 1)  same == shape /\ Len(rows) = Len(exp) IN
      IF none THEN (IF exp # <<>> THEN <<"P:C16:one-row-per-access">> ELSE <<>>) ELSE
      Fails(<< <<"P:C16:header", F.header = <<"M_pos", "M", "fiber_pos">> >>,
               <<"P:C16:one-row-per-access", same>>,
               <<"P:C16:iter-strict", shape => StrictlySorted(rows, 1)>>,
               <<"P:C16:point", same => \A k \in 1..Len(rows) : rows[k][2] = exp[k][2]>>,
               <<"P:C16:pos-iter", same => \A k \in 1..Len(rows) : rows[k][3] = exp[k][3]>> >>)
Judge(B) ==
  LET n  == Len(B.runs)
      ok == \A r \in 1..n : B.runs[r].exc = "ok"
      R  == B.runs[1]
  IN IF ~ok THEN <<"P:C16:no-exception">>
     ELSE Cat([k \in 1..Len(R.files) |-> JudgeFile(B, R.files[k])])
          \o Fails(<< <<"S:visits", \A r \in 1..n : B.runs[r].visits = ExpVisits(B)>>,
                      <<"P:C16:flush-independent", \A r \in 2..n : B.runs[r].files = R.files>>,
                      <<"P:C16:consumable-same", \A r \in 1..n : \A c \in 1..Len(B.runs[r].consumed) : B.runs[r].consumed[c].rows = B.runs[r].consumed[c].filerows>> >>)
Init == i \in 1..Len(Log) /\ done = FALSE
Next == ~done /\ done' = TRUE /\ UNCHANGED i
        /\ LET f == Judge(Log[i]) IN PrintT(ToJson([tid |-> Log[i].tid, fails |-> [k \in 1..Len(f) |-> <<1, f[k]>>], n |-> Len(Log[i].runs)]))
=============================================================================
