----------------------------- MODULE MC_Convert -----------------------------
(* design level: the squeezed tree of a nest has the nest's content, is canonical, and uncompresses back to the nest - for every nest of the scope *)
EXTENDS FTConvert
CONSTANTS D
VARIABLES n, lv
vars == <<n, lv>>
Vals == {0, 1, 2}
N1(k) == [1..k -> Vals]
Init == \/ lv = 1 /\ n \in UNION {N1(k) : k \in 1..3}
        \/ lv = 2 /\ n \in UNION {[1..a -> N1(b)] : a \in 1..2, b \in 1..3}
        \/ lv = 3 /\ n \in [1..2 -> [1..2 -> N1(2)]]
Next == UNCHANGED vars
DesignOK == LET t == FromNest(n, D, lv) IN
            /\ Content(t, D) = NestContent(n, D, lv)
            /\ CanonicalT(t, D) /\ WF(t)
            /\ ToNest(t, Dims(n, lv), D) = n
=============================================================================
