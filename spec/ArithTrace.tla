----------------------------- MODULE ArithTrace -----------------------------
(* trace validation for C11 *)
EXTENDS FTArith, Json, IOUtils
Log == ndJsonDeserialize(IOEnv.TRACE_FILE)
VARIABLES i, done
vars == <<i, done>>

InPlace(op) == op \in {"iadd", "isub", "imul", "itruediv", "ilshift"}
Base(op) == CASE op = "iadd" -> "add" [] op = "isub" -> "sub" [] op = "imul" -> "mul" [] op = "itruediv" -> "truediv" [] OTHER -> op

JudgeScalar(B) ==
  LET exp == OpVal(Base(B.op), B.x, B.y) IN
  IF B.exc # "ok" THEN <<"P:C11:value">>       \* a documented operator that raises for legal operands
  ELSE Fails(<<
     <<"P:C11:value", (B.res.kind # "none") /\ B.res.val = exp>>,
     <<"P:C11:inplace-same-box", InPlace(B.op) => (B.same = 1 /\ B.boxval = exp)>>,
     <<"P:C11:ilshift-replaces", B.op = "ilshift" => B.boxval = B.y>>,
     <<"P:C11:operand-untouched", ~InPlace(B.op) => (B.lafter = B.x /\ B.rafter = B.y)>> >>)

JudgeFiber(B) ==
  LET a == B.a.e  b == B.b.e
      exp == CASE B.op \in {"add_ff", "iadd_ff"} -> FAddC(a, b, B.d)
               [] B.op \in {"mul_ff", "imul_ff"} -> FMulC(a, b, B.d)
               [] B.op \in {"add_fs", "radd_fs", "iadd_fs"} -> FAddSC(a, B.s, B.shape, B.d)
               [] OTHER -> FMulSC(a, B.s, B.d)
      inpl == B.op \in {"iadd_ff", "imul_ff", "iadd_fs", "imul_fs"}
      ok == NoForeign(B.res) /\ Sorted(B.res.e) /\ \A k \in 1..Len(B.res.e) : B.res.e[k][2].k = "L"
      name == CASE B.op \in {"add_ff"} -> "P:C11:fiber-add" [] B.op = "mul_ff" -> "P:C11:fiber-mul"
                [] B.op \in {"add_fs", "radd_fs", "mul_fs", "rmul_fs"} -> "P:C11:fiber-scalar" [] OTHER -> "P:C11:inplace-agrees"
  IN IF B.exc # "ok" THEN <<"P:C11:fiber-no-exception">>
     ELSE Fails(<< <<name, ok /\ C1(B.res.e, B.d) = exp>>,
                   <<"P:C11:operand-untouched", (~inpl => B.aafter = B.a) /\ B.bafter = B.b>>,
                   <<"P:C11:inplace-same-fiber", inpl => B.same = 1>> >>)

\* two-level fibers: the same laws on the map view (points <<c1, c2>>): sum over the union of the points, product over their intersection
RECURSIVE AbsT(_)
AbsT(p) == IF p.k = "F" THEN Fib([k \in 1..Len(p.e) |-> <<p.e[k][1], AbsT(p.e[k][2])>>]) ELSE IF p.k = "L" THEN Leaf(p.v) ELSE [k |-> "X"]
PVal(C, pt) == IF \E x \in C : x[1] = pt THEN (CHOOSE x \in C : x[1] = pt)[2] ELSE 0
JudgeFiber2(B) ==
  LET CA == Content(AbsT(B.a), 0)  CB == Content(AbsT(B.b), 0)
      pts == {x[1] : x \in CA} \cup {x[1] : x \in CB}
      exp == IF B.op \in {"add_ff", "iadd_ff"} THEN {y \in {<<p, PVal(CA, p) + PVal(CB, p)>> : p \in pts} : y[2] # 0}
             ELSE {y \in {<<p, PVal(CA, p) * PVal(CB, p)>> : p \in pts} : y[2] # 0}
      inpl == B.op \in {"iadd_ff", "imul_ff"}
      name == CASE B.op = "add_ff" -> "P:C11:fiber-add" [] B.op = "mul_ff" -> "P:C11:fiber-mul" [] OTHER -> "P:C11:inplace-agrees"
  IN IF B.exc # "ok" THEN <<"P:C11:fiber-no-exception">>
     ELSE Fails(<< <<name, NoForeign(B.res) /\ Content(AbsT(B.res), 0) = exp>>,
                   <<"P:C11:operand-untouched", (~inpl => B.aafter = B.a) /\ B.bafter = B.b>>,
                   <<"P:C11:inplace-same-fiber", inpl => B.same = 1>> >>)

Judge(B) == IF B.kind = "scalar" THEN JudgeScalar(B) ELSE IF B.kind = "fiber2" THEN JudgeFiber2(B) ELSE JudgeFiber(B)
Init == i \in 1..Len(Log) /\ done = FALSE
Next == ~done /\ done' = TRUE /\ UNCHANGED i
        /\ LET f == Judge(Log[i]) IN PrintT(ToJson([tid |-> Log[i].tid, fails |-> [k \in 1..Len(f) |-> <<1, f[k]>>], n |-> 1]))
=============================================================================
