------------------------------ MODULE MC_Split ------------------------------
(* design level: the declarative split is lossless and exact-once (halo 0), chunk sizes are as stated, for the whole scope *)
EXTENDS FTSplit
CONSTANTS NC
VARIABLES e, lo, hi, kind, p1, p2
vars == <<e, lo, hi, kind, p1, p2>>
Init == /\ e \in Trees1(NC, {0, 1}) /\ lo \in 0..NC /\ hi \in 0..(NC + 1) /\ lo <= hi
        /\ kind \in {"uniform", "nonuniform", "equal", "unequal"} /\ p1 \in 1..3 /\ p2 \in 0..3
Next == UNCHANGED vars
Els == Present(e, 0)
MaxC == IF Len(e) = 0 THEN 0 ELSE e[Len(e)][1]
Parts == CASE kind = "uniform" -> UniformParts(p1, MaxC, 0)
           [] kind = "nonuniform" -> NonUniformParts(IF p2 = 0 THEN <<p1>> ELSE <<p2 - 1, p2 - 1 + p1>>)
           [] kind = "equal" -> EqualParts(p1, Els, lo, hi)
           [] kind = "unequal" -> UnEqualParts(IF p2 = 0 THEN <<p1>> ELSE <<p1, p2>>, Els, lo, hi)
ChunkLaw == kind = "equal" =>
    LET nd == Need(Els, Parts, 0, 0, lo, hi) IN
    \A j \in 1..Len(nd) : Len(MemA(Els, nd[j], 0, 0, lo, hi)) = (IF j < Len(nd) THEN p1 ELSE Len(ActiveEls(Els, lo, hi)) - (Len(nd) - 1) * p1)
DesignOK == LosslessLaw(Els, Parts, lo, hi) /\ ChunkLaw
=============================================================================
