----------------------------- MODULE CodecTrace -----------------------------
(* trace validation for C20: the arrays the codec produced are decoded by the documented layout alone; per encoded fiber the handle scan, C lookup and size are checked *)
EXTENDS FTCodec, Json, IOUtils
Log == ndJsonDeserialize(IOEnv.TRACE_FILE)
VARIABLES i, done
vars == <<i, done>>
RECURSIVE Abs(_)
Abs(p) == IF p.k = "F" THEN Fib([k \in 1..Len(p.e) |-> <<p.e[k][1], Abs(p.e[k][2])>>])
          ELSE IF p.k = "L" THEN Leaf(p.v) ELSE [k |-> "X"]

FiberClauses(F) ==
  LET elems == CASE F.fmt = "U" -> [k \in 1..F.shape |-> k - 1] [] F.fmt = "C" -> F.coords [] OTHER -> Ones(F.coords)
      scanC == [k \in 1..Len(F.scan) |-> F.scan[k][1]]
      \* words stored: coordinates (C) or mask words (B), occupancy entries, value entries of a leaf fiber (child handles of an interior fiber are not pinned)
      words == (CASE F.fmt = "C" -> Len(F.coords) [] F.fmt = "B" -> CeilDiv(Len(F.coords), 32) [] OTHER -> 0) + Len(F.occ) + (IF F.leaf = 1 THEN F.npay ELSE 0)
  IN << <<"P:C20:scan", F.scan_exc = "ok" /\ scanC = elems /\ (F.leaf = 1 => \A k \in 1..Len(F.scan) : F.scan[k][3] = F.pays[k])>>,
        \* the same scan with every fiber of the rank in progress at once delivers the same elements (each fiber scans through its OWN handle state)
        <<"P:C20:scan-independent", F.scan_exc = "ok" => F.scan2 = F.scan>>,
        <<"P:C20:lookup", F.fmt = "C" => \A k \in 1..Len(F.lookups) : F.lookups[k][2] = LookupC(F.coords, F.lookups[k][1])>>,
        \* after a coordinate was inserted in mid-list (ins_coords: the list afterwards), lookups still find the first stored coordinate not below the query
        <<"P:C20:lookup-after-insert", F.fmt = "C" => \A k \in 1..Len(F.ins_lookups) : F.ins_lookups[k][2] = LookupC(F.ins_coords, F.ins_lookups[k][1])>>,
        <<"P:C20:size", F.size_exc = "ok" /\ (F.leaf = 1 => F.size = words) /\ (F.leaf = 0 => (F.size = words \/ F.size = words + F.npay))>> >>

Judge(B) ==
  LET dec == Decode(B.desc, B.shape, B.coords, B.pays, B.rootp, B.dflt)
      RECURSIVE Cat(_)
      Cat(ss) == IF ss = <<>> THEN <<>> ELSE Head(ss) \o Cat(Tail(ss))
  IN IF B.exc # "ok" THEN <<"P:C20:no-exception">>
     ELSE Fails(<< <<"P:C20:decode-content", dec.ok /\ dec.content = Content(Abs(B.tree), B.dflt)>>,
                   <<"S:all-words-consumed", dec.ok => \A k \in 1..Len(B.desc) : dec.cur.c[k] = Len(B.coords[k]) /\ dec.cur.p[k] = Len(B.pays[k])>> >>
                \o Cat([k \in 1..Len(B.fibers) |-> FiberClauses(B.fibers[k])]))
Init == i \in 1..Len(Log) /\ done = FALSE
Next == ~done /\ done' = TRUE /\ UNCHANGED i
        /\ LET f == Judge(Log[i]) IN PrintT(ToJson([tid |-> Log[i].tid, fails |-> [k \in 1..Len(f) |-> <<1, f[k]>>], n |-> 1 + Len(Log[i].fibers)]))
=============================================================================
