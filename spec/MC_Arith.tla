------------------------------ MODULE MC_Arith ------------------------------
(***************************************************************************)
(* design level: the algorithms the library uses for fiber arithmetic      *)
(* (+ via the union two-finger machine, * via the intersection machine,    *)
(* += via a populate loop that accumulates, as Fiber.__iadd__ does) give   *)
(* the declarative content, for every pair of fibers of the scope; and the *)
(* rational arithmetic used by the oracle satisfies the field laws.        *)
(***************************************************************************)
EXTENDS FTArith, FTCoiter, FTPopulate
CONSTANTS NC
VARIABLES a, b
vars == <<a, b>>
T == Trees1(NC, {0, 1, 2})
Init == a \in T /\ b \in T
Next == UNCHANGED vars
PA == CoordsOf(Present(a, 0))   PB == CoordsOf(Present(b, 0))
AddOp == LET ys == TwoFinger("or", PA, PB).out IN {x \in {<<ys[k][1], ValAt(a, ys[k][1], 0) + ValAt(b, ys[k][1], 0)>> : k \in 1..Len(ys)} : x[2] # 0}
MulOp == LET ys == TwoFinger("and", PA, PB).out IN {x \in {<<ys[k][1], ValAt(a, ys[k][1], 0) * ValAt(b, ys[k][1], 0)>> : k \in 1..Len(ys)} : x[2] # 0}
\* a += b  ==  for _, (ar, bv) in a << b: ar += bv
IAddScript == LET pb == Present(b, 0) IN [k \in 1..Len(pb) |-> [p |-> <<pb[k][1]>>, ch |-> "accum", v |-> pb[k][2].v]]
IAddOp == C1(PopFiber(Fib(a), Fib(b), IAddScript, <<>>, 1, 0, 0).e, 0)
Q == {<<n, d>> : n \in -3..3, d \in {1, 2, 4}}
DesignOK == /\ AddOp = FAddC(a, b, 0) /\ MulOp = FMulC(a, b, 0) /\ IAddOp = FAddC(a, b, 0)
            /\ FAddC(a, b, 0) = FAddC(b, a, 0) /\ FMulC(a, b, 0) = FMulC(b, a, 0)
RationalLaws == \A x \in Q, y \in Q : /\ RAdd(x, y) = RAdd(y, x) /\ RSub(RAdd(x, y), y) = Norm(x[1], x[2])
                                     /\ (y[1] # 0 => RMul(RDiv(x, y), y) = Norm(x[1], x[2]))
                                     /\ (y[1] # 0 => LET q == RFloorDiv(x, y) r == RSub(x, RMul(q, y)) IN
                                                       IF y[1] > 0 THEN (~RLt(r, <<0, 1>>) /\ RLt(r, y)) ELSE (~RLt(<<0, 1>>, r) /\ RLt(y, r)))
ASSUME RationalLaws
=============================================================================
