------------------------------ MODULE MC_Cost -------------------------------
(* design level: the per-fiber costs are what the two-finger machine does (steps <= |A|+|B|, skip-ahead <= two-finger, equal when nothing repeats),
   the finite-latency swap count has the closed form, and the unbounded-latency count is bounded by the pairwise comparison bound *)
EXTENDS FTCost
CONSTANTS NC
VARIABLES a, b
vars == <<a, b>>
SubSeqs == {SetToSortedSeq(S) : S \in SUBSET (0..(NC - 1))}
Init == a \in SubSeqs /\ b \in SubSeqs
Next == UNCHANGED vars
DesignOK ==
    /\ TFSteps(a, b) <= Len(a) + Len(b)
    /\ SkipSteps(a, b) <= TFSteps(a, b)
    /\ TFSteps(a, b) = TFSteps(b, a) /\ SkipSteps(a, b) = SkipSteps(b, a)
    /\ (a = b => TFSteps(a, b) = Len(a) /\ SkipSteps(a, b) = Len(a))
    /\ (a # <<>> /\ b # <<>>) => SwapsOf(<<a, b>>, 2, 1) = 2 + Len(a) + Len(b)
    /\ (a # <<>> /\ b # <<>>) => SwapsOf(<<a, b>>, 2, -1) <= 2 * (Len(a) + Len(b))
    /\ (a # <<>> /\ b # <<>>) => SwapsOf(<<a, b, a>>, 2, 2) = 2 * (2 + Len(a) + Len(b)) + 2 * (1 + Len(a)) + 2 * (2 + 2 * Len(a) + Len(b))
=============================================================================
