----------------------------- MODULE CacheSearch -----------------------------
(***************************************************************************)
(* Optimality oracle for the cache model (C17): TLC's exhaustive search    *)
(* over replacement schedules.  One initial state per logged (case,        *)
(* capacity); on a miss the cache may bypass the line or insert it,        *)
(* evicting any victim.  `rep` is the number of line fills the             *)
(* implementation charged.  Schedules dearer than `rep` are pruned; the    *)
(* charge is optimal iff some schedule ends with cost = rep (WITNESS) and  *)
(* none with cost < rep (BELOW).                                           *)
(***************************************************************************)
EXTENDS FTBuffer, Json, IOUtils
Log == ndJsonDeserialize(IOEnv.TRACE_FILE)
VARIABLES i, pos, res, cost
vars == <<i, pos, res, cost>>
Lines(k) == LET B == Log[k] b == [mask |-> B.mask, epl |-> B.epl, ev |-> 0, shape |-> B.shape, staged |-> FALSE] IN [q \in 1..Len(B.rows_r) |-> LineOf(B.rows_r[q], b)]
Tr == Lines(i)
Cap == Log[i].caplines
Rep == Log[i].replines
Init == i \in 1..Len(Log) /\ pos = 1 /\ res = {} /\ cost = 0
Hit    == Tr[pos] \in res /\ res' = res /\ cost' = cost
Bypass == Tr[pos] \notin res /\ res' = res /\ cost' = cost + 1
Insert == /\ Tr[pos] \notin res /\ cost' = cost + 1
          /\ \/ Cardinality(res) < Cap /\ res' = res \cup {Tr[pos]}
             \/ Cardinality(res) >= Cap /\ Cap > 0 /\ \E v \in res : res' = (res \ {v}) \cup {Tr[pos]}
Next == pos <= Len(Tr) /\ pos' = pos + 1 /\ UNCHANGED i /\ (Hit \/ Bypass \/ Insert)
Bound == cost <= Rep
Judge == (pos > Len(Tr)) => /\ (cost < Rep => PrintT(ToJson([tid |-> Log[i].tid, v |-> "BELOW"])))
                            /\ (cost = Rep => PrintT(ToJson([tid |-> Log[i].tid, v |-> "WITNESS"])))
=============================================================================
