------------------------------ MODULE MC_Alias ------------------------------
EXTENDS FTAlias
CONSTANTS Cells, Vals
VARIABLES heap, a, b, a0, b0, touchedA, touchedB
vars == <<heap, a, b, a0, b0, touchedA, touchedB>>
Init == /\ heap \in [Cells -> Vals] /\ a \in SUBSET Cells /\ b \in SUBSET Cells /\ a # {} /\ b # {}
        /\ a0 = AbsOf(heap, a) /\ b0 = AbsOf(heap, b) /\ touchedA = FALSE /\ touchedB = FALSE
\* mutate one part through object a (resp. b)
MutA == \E c \in a, v \in Vals : heap' = [heap EXCEPT ![c] = v] /\ touchedA' = TRUE /\ UNCHANGED <<a, b, a0, b0, touchedB>>
MutB == \E c \in b, v \in Vals : heap' = [heap EXCEPT ![c] = v] /\ touchedB' = TRUE /\ UNCHANGED <<a, b, a0, b0, touchedA>>
Next == MutA \/ MutB
\* disjoint identity sets => as long as only the other side was mutated, this side keeps its abstract value, for every history
NonInterference == Disjoint(a, b) => /\ (~touchedA => AbsOf(heap, a) = a0)
                                     /\ (~touchedB => AbsOf(heap, b) = b0)
\* and a shared part is always witnessed by some one-step mutation (so disjointness is also necessary)
SharedIsVisible == (~Disjoint(a, b) /\ ~touchedA /\ ~touchedB /\ Cardinality(Vals) > 1) => ENABLED (MutB /\ AbsOf(heap', a) # a0)
=============================================================================
