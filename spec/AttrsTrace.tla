----------------------------- MODULE AttrsTrace -----------------------------
(* trace validation for C14 *)
EXTENDS FTAttrs, Json, IOUtils
Log == ndJsonDeserialize(IOEnv.TRACE_FILE)
VARIABLES i, done
vars == <<i, done>>

\* every stored coordinate of every fiber of a result lies inside the rank's shape and the fiber's active range; iterActive = iterOccupancy
FiberOK(F) == /\ \A k \in 1..Len(F.coords) : F.coords[k] >= F.act[1] /\ F.coords[k] < F.act[2]
InShape(F) == F.shape = -1 \/ \A k \in 1..Len(F.coords) : F.coords[k] >= 0 /\ F.coords[k] < F.shape

JudgeTransform(B) ==
  LET ids == B.ids0  sh == B.shape0  f0 == B.fmts0  n == Len(ids)  d == B.d  L == B.levels
      auth == B.auth0 = 1
      splitSh == SubSeq(sh, 1, d + 1) \o <<sh[d + 1]>> \o SubSeq(sh, d + 2, Len(sh))
      expIds == CASE B.op = "split" -> IdsText(SplitIds(ids, d))
                  [] B.op = "splitswizzle" -> IdsText(PermuteIds(SplitIds(ids, d), B.guide))
                  [] B.op = "flatflat" -> IdsText(<<ConcatS(ids)>>) [] B.op \in {"flatten", "merge"} -> IdsText(FlattenIds(ids, d, L))
                  [] B.op = "unflatten" -> IdsText(ids) [] B.op = "swizzle" -> IdsText(PermuteIds(ids, B.guide))
                  [] B.op = "swap" -> IdsText(PermuteIds(ids, SwapG(n, d))) [] OTHER -> IdsText(ids)
      expSh == CASE B.op = "split" -> SplitShape(sh, d)
                 [] B.op = "splitswizzle" -> PermuteShape(splitSh, B.guide)
                 [] B.op = "flatflat" -> B.shape1
                 [] B.op \in {"flatten", "merge"} -> FlattenShape(sh, d, L, B.style)
                 [] B.op = "unflatten" -> ShText(sh) [] B.op = "swizzle" -> PermuteShape(sh, B.guide)
                 [] B.op = "swap" -> PermuteShape(sh, SwapG(n, d)) [] OTHER -> ShText(sh)
      expF == CASE B.op = "split" -> SplitFmts(f0, d)
                [] B.op = "splitswizzle" -> [k \in 1..(n + 1) |-> SplitFmts(f0, d)[B.guide[k]]]
                [] B.op = "flatflat" -> <<"C">> [] B.op \in {"flatten", "merge"} -> FlattenFmts(f0, d, L)
                \* unflatten: its operand is the flattened tensor, whose merged rank is compressed; the ranks it re-creates are new
                [] B.op = "unflatten" -> SubSeq(f0, 1, d) \o [k \in 1..(L + 1) |-> "C"] \o SubSeq(f0, d + L + 2, Len(f0))
                [] B.op = "swizzle" -> [k \in 1..n |-> f0[B.guide[k]]] [] B.op = "swap" -> [k \in 1..n |-> f0[SwapG(n, d)[k]]] [] OTHER -> f0
      idname == "P:C14:ids-" \o B.op
      shname == "P:C14:shape-" \o B.op
  IN Fails(<<
      <<idname, B.ids1 = expIds>>,
      <<shname, auth => B.shape1 = expSh>>,
      <<"P:C14:default-carried", B.dflt1 = B.dflt0>>,
      <<"P:C14:format-carried", B.fmts1 = expF>>,
      <<"P:C14:mutable-carried", B.mutable1 = B.mutable0>>,
      <<"P:C14:coord-in-shape", \A k \in 1..Len(B.fibers) : InShape(B.fibers[k])>>,
      <<"P:C14:coord-in-active", \A k \in 1..Len(B.fibers) : FiberOK(B.fibers[k])>>,
      <<"P:C14:active-iter-equals-occupancy", \A k \in 1..Len(B.fibers) : B.fibers[k].iteract = B.fibers[k].iterocc>> >>)

\* lazily produced fibers: rank id of the first operand (the destination for populate); active range of the first operand for merges and
\* pruning, of the source for populate, the requested interval or the transformed range for projections
JudgeLazy(B) ==
  LET lo == B.acts[1][1]  hi == B.acts[1][2]  s == B.s  o == B.o
      expAct == CASE B.op \in {"and", "or", "xor", "sub", "prune", "intersection", "union"} -> B.acts[1]
                  [] B.op = "lshift" -> B.acts[2]
                  \* dense co-iterations: the range they walk - the whole shape, the first operand's active range, the requested range
                  [] B.op = "coitershape" -> <<0, B.shape>>
                  [] B.op = "coiteractiveshape" -> B.acts[1]
                  [] B.op = "coiterrangeshape" -> <<1, 4>>
                  [] B.op = "project" -> IF B.hasiv = 1 THEN B.iv
                                         ELSE IF s > 0 THEN <<s * lo + o, s * (hi - 1) + o + 1>> ELSE <<s * (hi - 1) + o, s * lo + o + 1>>
  IN Fails(<<
      \* a projection creates a new rank: it carries the requested rank id (without one the repository pins "Unknown")
      <<"P:C14:lazy-id", IF B.op = "project" THEN (B.target # "" => B.rid = B.target) ELSE B.rid = B.rids[1]>>,
      <<"P:C14:lazy-active-" \o B.op, B.act = expAct>> >>)

JudgeOwner(B) ==
  Fails(<< <<"P:C14:owner-attrs-replace", B.after_rid = B.rank_rid /\ B.after_shape = B.rank_shape /\ B.after_dflt = B.rank_dflt>>,
           \* the shape the joined fiber reports still contains its coordinates (a fiber that declared a larger shape than the tensor keeps its room)
           <<"P:C14:coord-in-shape", B.maxcoord < B.after_shape>>,
           \* no explicit active range was ever set: the joined fiber's active range is its rank's whole shape, whatever the fiber reported before it joined
           <<"P:C14:coord-in-active", B.after_act = <<0, B.after_shape>> >> >>)

JudgeCtor(B) ==
  Fails(<< <<"P:C14:coord-in-shape", \A k \in 1..Len(B.fibers) : InShape(B.fibers[k])>>,
           <<"P:C14:coord-in-active", \A k \in 1..Len(B.fibers) : FiberOK(B.fibers[k])>>,
           <<"P:C14:active-iter-equals-occupancy", \A k \in 1..Len(B.fibers) : B.fibers[k].iteract = B.fibers[k].iterocc>> >>)

Judge(B) == IF B.exc # "ok" THEN <<"P:C14:no-exception">>
            ELSE CASE B.kind = "ctor" -> JudgeCtor(B) [] B.kind = "transform" -> JudgeTransform(B) [] B.kind = "lazy" -> JudgeLazy(B) [] B.kind = "owner" -> JudgeOwner(B)
Init == i \in 1..Len(Log) /\ done = FALSE
Next == ~done /\ done' = TRUE /\ UNCHANGED i
        /\ LET f == Judge(Log[i]) IN PrintT(ToJson([tid |-> Log[i].tid, fails |-> [k \in 1..Len(f) |-> <<1, f[k]>>], n |-> 1]))
=============================================================================
