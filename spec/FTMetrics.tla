----------------------------- MODULE FTMetrics ------------------------------
(***************************************************************************)
(* The process-global Metrics singleton as a state machine (C15, C16).     *)
(* Registers (class attributes of metrics.py):                             *)
(*   collecting, iteration, point, line_order (as loop_order positions),   *)
(*   loop_order, fiber_label, metrics, traces, rank_matches,               *)
(*   all_rank_matches, rank_flatten, prefix, ncache (num_cached_uses)      *)
(* One action per classmethod, transcribed from the code.  `ref` is the    *)
(* same machine restarted from the pristine state at every BeginCollect:   *)
(* session isolation = the visible registers of the real machine equal     *)
(* those of the reference whatever sessions (finished or aborted) ran      *)
(* before.                                                                 *)
(***************************************************************************)
EXTENDS FTCore

Pristine == [collecting |-> FALSE, iteration |-> <<>>, point |-> <<>>, loop_order |-> <<>>, fiber_label |-> <<>>,
             metrics |-> <<>>, traces |-> <<>>, rank_matches |-> <<>>, all_rank_matches |-> <<>>, rank_flatten |-> <<>>, prefix |-> "none"]
Fresh(prefix) == [Pristine EXCEPT !.collecting = TRUE, !.prefix = prefix]

\* association lists as sequences of <<key, value>>
AGet(al, k, d) == IF \E i \in 1..Len(al) : al[i][1] = k THEN al[CHOOSE i \in 1..Len(al) : al[i][1] = k][2] ELSE d
APut(al, k, v) == IF \E i \in 1..Len(al) : al[i][1] = k THEN [i \in 1..Len(al) |-> IF al[i][1] = k THEN <<k, v>> ELSE al[i]] ELSE Append(al, <<k, v>>)
IndexOf(s, x) == IF \E i \in 1..Len(s) : s[i] = x THEN CHOOSE i \in 1..Len(s) : s[i] = x ELSE 0

BeginCollect(m, prefix) == Fresh(prefix)                       \* every register is re-initialised
RegisterRank(m, r) == IF IndexOf(m.loop_order, r) # 0 THEN m
                      ELSE [m EXCEPT !.fiber_label = APut(@, r, 0), !.iteration = Append(@, 0), !.loop_order = Append(@, r), !.point = Append(@, 0)]
IncIter(m, r) == LET i == IndexOf(m.loop_order, r) IN [m EXCEPT !.iteration[i] = @ + 1]
EndIter(m, r) == LET i == IndexOf(m.loop_order, r) IN [m EXCEPT !.iteration[i] = 0, !.fiber_label = APut(@, r, 0)]
IncCount(m, line, metric, n) == [m EXCEPT !.metrics = APut(@, <<line, metric>>, AGet(@, <<line, metric>>, 0) + n)]
TraceOn(m, r, ty) == [m EXCEPT !.traces = APut(@, <<r, ty>>, AGet(@, <<r, ty>>, <<>>))]
AddUse(m, r, c, pos, ty) ==
    LET i == IndexOf(m.loop_order, r)
        m1 == [m EXCEPT !.point[i] = c]
        row == SubSeq(m1.iteration, 1, i) \o SubSeq(m1.point, 1, i) \o <<pos>>
    IN IF \E k \in 1..Len(m.traces) : m.traces[k][1] = <<r, ty>> THEN [m1 EXCEPT !.traces = APut(@, <<r, ty>>, Append(AGet(@, <<r, ty>>, <<>>), row))] ELSE m1
EndCollect(m) == [m EXCEPT !.collecting = FALSE, !.fiber_label = <<>>, !.iteration = <<>>, !.loop_order = <<>>, !.point = <<>>, !.prefix = "none", !.traces = <<>>]
\* what a session reports
Visible(m) == [metrics |-> m.metrics, traces |-> m.traces, iteration |-> m.iteration, loop_order |-> m.loop_order]
=============================================================================
