------------------------------- MODULE MC_Eq --------------------------------
(* design level: the code's equality algorithm decides exactly equality of content; emits every pair *)
EXTENDS FTEq, Json
CONSTANTS NC, DEPTH, VMAX, D
VARIABLES a, b, done
vars == <<a, b, done>>
T == IF DEPTH = 1 THEN Trees1(NC, 0..VMAX) ELSE Trees2(NC, 0..VMAX)
Init == a \in {Fib(e) : e \in T} /\ b \in {Fib(e) : e \in T} /\ done = FALSE
Next == ~done /\ done' = TRUE /\ UNCHANGED <<a, b>> /\ PrintT(ToJson([a |-> a, b |-> b, depth |-> DEPTH, d |-> D]))
DesignOK == /\ EqOp(a, b, D) = EqSpec(a, b, D)
            /\ Canonical(PrunedTree(a, D), D) /\ Content(PrunedTree(a, D), D) = Content(a, D)
=============================================================================
