----------------------------- MODULE FTConvert ------------------------------
(***************************************************************************)
(* Conversions between representations (C13).                              *)
(* A nest is a rectangular nest of sequences with integer entries.         *)
(***************************************************************************)
EXTENDS FTCore

\* lv: number of levels of the nest (1: a sequence of integers)
RECURSIVE Dims(_, _)
Dims(n, lv) == IF lv = 1 THEN <<Len(n)>> ELSE <<Len(n)>> \o Dims(n[1], lv - 1)
\* content of a nest: <<index path (0-based), value>> of the non-default entries
RECURSIVE NestContentR(_, _, _, _)
NestContentR(n, path, d, lv) ==
    IF lv = 1 THEN {<<Append(path, k - 1), n[k]>> : k \in {j \in 1..Len(n) : n[j] # d}}
    ELSE UNION {NestContentR(n[k], Append(path, k - 1), d, lv - 1) : k \in 1..Len(n)}
NestContent(n, d, lv) == NestContentR(n, <<>>, d, lv)
\* the tree fromUncompressed is documented to build: default entries and all-default sub-nests are squeezed out
RECURSIVE FromNest(_, _, _)
FromNest(n, d, lv) ==
    IF lv = 1 THEN Fib(SelectSeq([k \in 1..Len(n) |-> <<k - 1, Leaf(n[k])>>], LAMBDA x : x[2].v # d))
    ELSE LET subs == [k \in 1..Len(n) |-> <<k - 1, FromNest(n[k], d, lv - 1)>>] IN Fib(SelectSeq(subs, LAMBDA x : Len(x[2].e) > 0))
\* uncompress a tree to a nest of the given dimensions
RECURSIVE ToNest(_, _, _)
ToNest(p, dims, d) ==
    IF Len(dims) = 1 THEN [k \in 1..dims[1] |-> IF p.k = "F" /\ Has(p.e, k - 1) THEN Get(p.e, k - 1).v ELSE d]
    ELSE [k \in 1..dims[1] |-> ToNest(IF p.k = "F" /\ Has(p.e, k - 1) THEN Get(p.e, k - 1) ELSE Fib(<<>>), Tail(dims), d)]
RECURSIVE CanonicalT(_, _)
CanonicalT(p, d) == IF p.k = "L" THEN p.v # d ELSE p.k = "F" /\ Len(p.e) >= 0 /\ \A i \in 1..Len(p.e) : (p.e[i][2].k = "F" => Len(p.e[i][2].e) > 0) /\ CanonicalT(p.e[i][2], d)
=============================================================================
